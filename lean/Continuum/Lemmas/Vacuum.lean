import Continuum.Temporal
import Continuum.Spec.Tables

/-!
# Helper lemmas for C19 (vacuum) and C20 (count_versions)
-/

namespace Continuum
variable {K : Type} [DecidableEq K]

/-! ## PKUnique -/

omit [DecidableEq K] in
theorem PKUnique.eq_of_mem {t : VTable K} (h : PKUnique t) {a b : VRow K} (ha : a ∈ t)
    (hb : b ∈ t) (hk : a.key = b.key) (hx : a.tx = b.tx) : a = b := by
  induction t with
  | nil => cases ha
  | cons x l ih =>
    unfold PKUnique at h
    rw [List.pairwise_cons] at h
    rcases List.mem_cons.1 ha with rfl | ha' <;> rcases List.mem_cons.1 hb with rfl | hb'
    · rfl
    · exact absurd ⟨hk, hx⟩ (h.1 _ hb')
    · exact absurd ⟨hk.symm, hx.symm⟩ (h.1 _ ha')
    · exact ih h.2 ha' hb'

omit [DecidableEq K] in
theorem PKUnique.nodup {t : VTable K} (h : PKUnique t) : t.Nodup :=
  List.Pairwise.imp (fun {a b} hab e => by subst e; exact hab ⟨rfl, rfl⟩) h

omit [DecidableEq K] in
theorem PKUnique.perm {t t' : VTable K} (h : PKUnique t) (hp : t.Perm t') : PKUnique t' :=
  List.Pairwise.perm h hp (fun hxy hyx => hxy ⟨hyx.1.symm, hyx.2.symm⟩)

/-! ## Stability of the merge sort, in the form needed here -/

/-- the comparison used by `versionsOf` and `vacuum` -/
abbrev txLe (a b : VRow K) : Bool := decide (a.tx ≤ b.tx)

omit [DecidableEq K] in
theorem txLe_trans (a b c : VRow K) : txLe a b = true → txLe b c = true → txLe a c = true := by
  simp only [txLe, decide_eq_true_eq]; omega

omit [DecidableEq K] in
theorem txLe_total (a b : VRow K) : (txLe a b || txLe b a) = true := by
  simp only [txLe, Bool.or_eq_true, decide_eq_true_eq]; omega

/-- under `PKUnique`, filtering the sorted table by key gives the entity's `versions` -/
theorem filter_mergeSort_eq_versionsOf {t : VTable K} (h : PKUnique t) (k : K) :
    (t.mergeSort (fun a b => decide (a.tx ≤ b.tx))).filter (fun r => r.key = k)
      = versionsOf t k := by
  unfold versionsOf rowsOf
  have hperm : (t.mergeSort txLe).Perm t := List.mergeSort_perm t _
  refine List.Perm.eq_of_pairwise (le := fun a b => txLe a b = true) ?_ ?_ ?_ ?_
  · intro a b ha hb hab hba
    rw [List.mem_filter] at ha
    rw [List.mem_mergeSort, List.mem_filter] at hb
    have ha' : a ∈ t := List.mem_mergeSort.1 ha.1
    have hak : a.key = k := of_decide_eq_true ha.2
    have hbk : b.key = k := of_decide_eq_true hb.2
    simp only [txLe, decide_eq_true_eq] at hab hba
    exact h.eq_of_mem ha' hb.1 (hak.trans hbk.symm) (by omega)
  · exact (List.pairwise_mergeSort txLe_trans txLe_total t).sublist List.filter_sublist
  · exact List.pairwise_mergeSort txLe_trans txLe_total _
  · exact (hperm.filter _).trans (List.mergeSort_perm _ _).symm

/-! ## The memory -/

omit [DecidableEq K] in
theorem memGet_memSet {A : Type} [DecidableEq A] (m : List (A × VRow K)) (a b : A) (r : VRow K) :
    memGet (memSet m a r) b = if b = a then some r else memGet m b := by
  unfold memGet memSet
  by_cases hb : b = a
  · subst hb; simp
  · have hab : ¬ a = b := fun e => hb e.symm
    rw [if_neg hb, List.find?_cons_of_neg (by simpa using hab), List.find?_filter]
    congr 2
    funext p
    by_cases hp : p.1 = b
    · simp [hp, hb]
    · simp [hp]

/-! ## The pass -/

theorem mem_of_mem_vacuumPass {d : VRow K} :
    ∀ (rs : List (VRow K)) (m : List (K × VRow K)), d ∈ vacuumPass m rs → d ∈ rs
  | [], _, h => by simp [vacuumPass] at h
  | r :: rs, m, h => by
    unfold vacuumPass at h
    split at h
    · split at h
      · rcases List.mem_cons.1 h with rfl | h'
        · exact List.mem_cons_self
        · exact List.mem_cons_of_mem _ (mem_of_mem_vacuumPass rs _ h')
      · exact List.mem_cons_of_mem _ (mem_of_mem_vacuumPass rs _ h)
    · exact List.mem_cons_of_mem _ (mem_of_mem_vacuumPass rs _ h)

theorem vacuumOKFrom_congr {del del' : List (VRow K)} :
    ∀ (vs : List (VRow K)) (last : Option (VRow K)), (∀ x ∈ vs, x ∈ del ↔ x ∈ del') →
      (vacuumOKFrom last del vs ↔ vacuumOKFrom last del' vs)
  | [], _, _ => by simp [vacuumOKFrom]
  | r :: rs, last, h => by
    have hr := h r List.mem_cons_self
    have ih1 := vacuumOKFrom_congr rs last (fun x hx => h x (List.mem_cons_of_mem _ hx))
    have ih2 := vacuumOKFrom_congr rs (some r) (fun x hx => h x (List.mem_cons_of_mem _ hx))
    unfold vacuumOKFrom
    by_cases hd : r ∈ del
    · rw [if_pos hd, if_pos (hr.1 hd), ih1]
    · rw [if_neg hd, if_neg (fun h' => hd (hr.2 h')), ih2]

/-- adding to the deleted list a row that does not occur among the versions looked at -/
theorem vacuumOKFrom_cons_del {r : VRow K} {del vs : List (VRow K)} {last : Option (VRow K)}
    (hr : r ∉ vs) : vacuumOKFrom last (r :: del) vs ↔ vacuumOKFrom last del vs :=
  vacuumOKFrom_congr vs last (fun x hx => by
    have : x ≠ r := fun e => hr (e ▸ hx)
    simp [this])

/-- The invariant of the single ordered pass, per entity `k`: starting with memory `m`, the rows
deleted from a duplicate-free list `rs` satisfy the per-entity contract on the rows of `k`,
started from what `m` remembers for `k`. -/
theorem vacuumPass_ok (k : K) :
    ∀ (rs : List (VRow K)) (m : List (K × VRow K)), rs.Nodup →
      vacuumOKFrom (memGet m k) (vacuumPass m rs) (rs.filter (fun r => r.key = k))
  | [], _, _ => by simp [vacuumOKFrom]
  | r :: rs, m, hnd => by
    rw [List.nodup_cons] at hnd
    obtain ⟨hr, hnd'⟩ := hnd
    have hrf : r ∉ rs.filter (fun r => r.key = k) := fun h => hr (List.mem_filter.1 h).1
    have ihm := vacuumPass_ok k rs m hnd'
    have ihs := vacuumPass_ok k rs (memSet m r.key r) hnd'
    rw [memGet_memSet] at ihs
    by_cases hk : r.key = k
    · -- `r` is a row of the entity looked at
      rw [List.filter_cons_of_pos (by simpa using hk)]
      rw [if_pos hk.symm] at ihs
      have hnotdel : r ∉ vacuumPass (memSet m r.key r) rs :=
        fun h => hr (mem_of_mem_vacuumPass _ _ h)
      unfold vacuumPass
      rw [hk]
      cases hm : memGet m k with
      | none =>
        simp only
        unfold vacuumOKFrom
        rw [hk] at hnotdel
        rw [if_neg hnotdel]
        rw [hk] at ihs; exact ihs
      | some p =>
        simp only
        by_cases hd : p.data = r.data
        · rw [if_pos hd]
          unfold vacuumOKFrom
          rw [if_pos List.mem_cons_self]
          refine ⟨hd, ?_⟩
          rw [vacuumOKFrom_cons_del hrf, ← hm]
          exact ihm
        · rw [if_neg hd]
          unfold vacuumOKFrom
          rw [hk] at hnotdel
          rw [if_neg hnotdel]
          rw [hk] at ihs; exact ihs
    · -- a row of another entity: the memory of `k` is untouched
      rw [List.filter_cons_of_neg (by simpa using hk)]
      rw [if_neg (fun e => hk e.symm)] at ihs
      unfold vacuumPass
      split
      · split
        · rw [vacuumOKFrom_cons_del hrf]; exact ihm
        · exact ihs
      · exact ihs

end Continuum
