import Continuum.Schema

/-!
# Helper lemmas for C12 (derivation of the version-table schema)

Generic facts about counting / finding by a key over a list whose keys are pairwise distinct, the
membership characterisation of `deriveCols`, and `Nodup` of the derived column names under `InOK`.
Core Lean only.
-/

namespace Continuum.Schema

/-! ## generic list facts -/

theorem filter_key_length_zero {α β : Type} [DecidableEq β] (f : α → β) (l : List α) (n : β)
    (h : ∀ c ∈ l, f c ≠ n) : (l.filter (fun c => decide (f c = n))).length = 0 := by
  have : l.filter (fun c => decide (f c = n)) = [] := by
    rw [List.filter_eq_nil_iff]
    intro a ha
    simpa using h a ha
  simp [this]

theorem filter_key_length_one {α β : Type} [DecidableEq β] (f : α → β) (l : List α)
    (hnd : (l.map f).Nodup) (v : α) (hv : v ∈ l) :
    (l.filter (fun c => decide (f c = f v))).length = 1 := by
  induction l with
  | nil => cases hv
  | cons a l ih =>
    rw [List.map_cons, List.nodup_cons] at hnd
    obtain ⟨hna, hnd⟩ := hnd
    rcases List.mem_cons.1 hv with rfl | hv'
    · have h0 := filter_key_length_zero f l (f v) (by
        intro c hc heq
        exact hna (heq ▸ List.mem_map_of_mem hc))
      simp [h0]
    · have hne : f a ≠ f v := by
        intro heq
        exact hna (heq ▸ List.mem_map_of_mem hv')
      simp [hne, ih hnd hv']

theorem nodup_map_inj {α β : Type} (f : α → β) (l : List α) (hnd : (l.map f).Nodup)
    {a b : α} (ha : a ∈ l) (hb : b ∈ l) (hab : f a = f b) : a = b := by
  induction l with
  | nil => cases ha
  | cons x l ih =>
    rw [List.map_cons, List.nodup_cons] at hnd
    obtain ⟨hnx, hnd⟩ := hnd
    rcases List.mem_cons.1 ha with rfl | ha' <;> rcases List.mem_cons.1 hb with rfl | hb'
    · rfl
    · exact absurd (hab ▸ List.mem_map_of_mem hb') hnx
    · exact absurd (hab ▸ List.mem_map_of_mem ha') hnx
    · exact ih hnd ha' hb'

theorem nodup_map_filter {α β : Type} (f : α → β) (p : α → Bool) (l : List α)
    (hnd : (l.map f).Nodup) : ((l.filter p).map f).Nodup := by
  induction l with
  | nil => simp
  | cons x l ih =>
    rw [List.map_cons, List.nodup_cons] at hnd
    obtain ⟨hnx, hnd⟩ := hnd
    rw [List.filter_cons]
    split
    · rw [List.map_cons, List.nodup_cons]
      refine ⟨?_, ih hnd⟩
      intro hmem
      obtain ⟨y, hy, hfy⟩ := List.mem_map.1 hmem
      exact hnx (hfy ▸ List.mem_map_of_mem (List.mem_filter.1 hy).1)
    · exact ih hnd

theorem append_modSuffix_inj {a b : Name} (h : a ++ modSuffix = b ++ modSuffix) : a = b :=
  List.append_cancel_right h

/-! ## membership in the derived columns -/

theorem mem_kept {i : TblIn} {c : PCol} : c ∈ kept i ↔ c ∈ i.cols ∧ isExcluded i c = false := by
  simp [kept, List.mem_filter]

/-- the internal segment of `deriveCols` -/
def internalCols (i : TblIn) : List VCol :=
  if i.hasModel && i.single then [] else
    [txColumn i] ++ (if i.validity then [endColumn i] else []) ++ [opColumn i]

/-- the flag segment of `deriveCols` -/
def modCols (i : TblIn) : List VCol :=
  if i.modTracker && i.hasModel then ((kept i).filter (fun c => !c.pk)).map modColumn else []

theorem deriveCols_eq (i : TblIn) :
    deriveCols i = (kept i).map (reflect i) ++ internalCols i ++ modCols i := rfl

theorem mem_internalCols {i : TblIn} {v : VCol} :
    v ∈ internalCols i ↔
      (i.hasModel && i.single) = false ∧
        (v = txColumn i ∨ (i.validity = true ∧ v = endColumn i) ∨ v = opColumn i) := by
  unfold internalCols
  cases hs : (i.hasModel && i.single) <;> cases hv : i.validity <;> simp

theorem mem_modCols {i : TblIn} {v : VCol} :
    v ∈ modCols i ↔
      (i.modTracker && i.hasModel) = true ∧
        ∃ c, c ∈ i.cols ∧ isExcluded i c = false ∧ c.pk = false ∧ v = modColumn c := by
  unfold modCols
  cases hs : (i.modTracker && i.hasModel)
  · simp
  · simp only [if_true, List.mem_map, List.mem_filter, mem_kept, true_and]
    constructor
    · rintro ⟨c, ⟨⟨hc, hex⟩, hpk⟩, rfl⟩
      exact ⟨c, hc, hex, by simpa using hpk, rfl⟩
    · rintro ⟨c, hc, hex, hpk, rfl⟩
      exact ⟨c, ⟨⟨hc, hex⟩, by simp [hpk]⟩, rfl⟩

theorem mem_deriveCols {i : TblIn} {v : VCol} :
    v ∈ deriveCols i ↔
      (∃ c, c ∈ i.cols ∧ isExcluded i c = false ∧ v = reflect i c) ∨
      v ∈ internalCols i ∨ v ∈ modCols i := by
  rw [deriveCols_eq, List.mem_append, List.mem_append, List.mem_map, or_assoc]
  constructor
  · rintro (⟨c, hc, rfl⟩ | h | h)
    · exact Or.inl ⟨c, (mem_kept.1 hc).1, (mem_kept.1 hc).2, rfl⟩
    · exact Or.inr (Or.inl h)
    · exact Or.inr (Or.inr h)
  · rintro (⟨c, hc, hex, rfl⟩ | h | h)
    · exact Or.inl ⟨c, mem_kept.2 ⟨hc, hex⟩, rfl⟩
    · exact Or.inr (Or.inl h)
    · exact Or.inr (Or.inr h)

/-! ## the derived column names are pairwise distinct -/

theorem kept_names_nodup {i : TblIn} (h : InOK i) : ((kept i).map (·.name)).Nodup :=
  nodup_map_filter _ _ _ h.1

theorem reflect_names (i : TblIn) (l : List PCol) :
    (l.map (reflect i)).map (·.name) = l.map (·.name) := by
  simp [List.map_map, Function.comp_def, reflect]

theorem internal_names_nodup {i : TblIn} (h : InOK i) : ((internalCols i).map (·.name)).Nodup := by
  obtain ⟨_, h1, h2, h3, _⟩ := h
  unfold internalCols
  cases (i.hasModel && i.single) <;> cases i.validity <;>
    simp [txColumn, endColumn, opColumn, h1, h2, h3]

theorem mod_names_nodup {i : TblIn} (h : InOK i) : ((modCols i).map (·.name)).Nodup := by
  unfold modCols
  split
  · have hk : (((kept i).filter (fun c => !c.pk)).map (·.name)).Nodup :=
      nodup_map_filter _ _ _ (kept_names_nodup h)
    generalize ((kept i).filter (fun c => !c.pk)) = l at hk
    induction l with
    | nil => simp
    | cons x l ih =>
      rw [List.map_cons, List.nodup_cons] at hk
      obtain ⟨hx, hk⟩ := hk
      rw [List.map_cons, List.map_cons, List.nodup_cons]
      refine ⟨?_, ih hk⟩
      intro hmem
      obtain ⟨y, hy, hfy⟩ := List.mem_map.1 hmem
      obtain ⟨z, hz, rfl⟩ := List.mem_map.1 hy
      have : z.name = x.name := append_modSuffix_inj hfy
      exact hx (this ▸ List.mem_map_of_mem hz)
  · simp

theorem derive_names_nodup {i : TblIn} (h : InOK i) : ((deriveCols i).map (·.name)).Nodup := by
  have hInOK := h
  obtain ⟨_, _, _, _, hint, hpm, hmi⟩ := h
  rw [deriveCols_eq, List.map_append, List.map_append, List.nodup_append, List.nodup_append]
  refine ⟨⟨?_, internal_names_nodup hInOK, ?_⟩, mod_names_nodup hInOK, ?_⟩
  · rw [reflect_names]; exact kept_names_nodup hInOK
  · -- parent vs internal
    intro a ha b hb hab
    subst hab
    rw [reflect_names] at ha
    obtain ⟨c, hc, rfl⟩ := List.mem_map.1 ha
    obtain ⟨w, hw, hwn⟩ := List.mem_map.1 hb
    have hci := hint c (mem_kept.1 hc).1
    rcases (mem_internalCols.1 hw).2 with rfl | ⟨_, rfl⟩ | rfl
    · exact hci.1 hwn.symm
    · exact hci.2.1 hwn.symm
    · exact hci.2.2 hwn.symm
  · -- (parent ++ internal) vs mods
    intro a ha b hb hab
    subst hab
    obtain ⟨w, hw, hwn⟩ := List.mem_map.1 hb
    obtain ⟨_, d, hd, _, _, rfl⟩ := mem_modCols.1 hw
    rcases List.mem_append.1 ha with ha | ha
    · rw [reflect_names] at ha
      obtain ⟨c, hc, hcn⟩ := List.mem_map.1 ha
      exact hpm c (mem_kept.1 hc).1 d hd (by simpa [modColumn] using hwn.trans hcn.symm)
    · obtain ⟨u, hu, hun⟩ := List.mem_map.1 ha
      have hdi := hmi d hd
      have hwn' : d.name ++ modSuffix = u.name := by simpa [modColumn] using hwn.trans hun.symm
      rcases (mem_internalCols.1 hu).2 with rfl | ⟨_, rfl⟩ | rfl
      · exact hdi.1 hwn'
      · exact hdi.2.1 hwn'
      · exact hdi.2.2 hwn'

/-! ## counting and finding in the derived table -/

theorem countCol_derive_one {i : TblIn} (h : InOK i) {v : VCol} (hv : v ∈ deriveCols i) :
    countCol (deriveTable i) v.name = 1 :=
  filter_key_length_one (fun c : VCol => c.name) (deriveCols i) (derive_names_nodup h) v hv

theorem countCol_derive_zero {i : TblIn} {n : Name} (hn : ∀ v ∈ deriveCols i, v.name ≠ n) :
    countCol (deriveTable i) n = 0 :=
  filter_key_length_zero (fun c : VCol => c.name) (deriveCols i) n hn

theorem findCol_derive {i : TblIn} (h : InOK i) {v w : VCol} (hv : v ∈ deriveCols i)
    (hw : w ∈ (findCol (deriveTable i) v.name).toList) : w = v := by
  rw [Option.mem_toList] at hw
  have hmem : w ∈ deriveCols i := List.mem_of_find?_eq_some hw
  have hname : w.name = v.name := by simpa using List.find?_some hw
  exact nodup_map_inj (fun c : VCol => c.name) (deriveCols i) (derive_names_nodup h) hmem hv hname

theorem findCol_derive_none {i : TblIn} {n : Name} (hn : ∀ v ∈ deriveCols i, v.name ≠ n)
    {w : VCol} (hw : w ∈ (findCol (deriveTable i) n).toList) : False := by
  rw [Option.mem_toList] at hw
  have hmem : w ∈ deriveCols i := List.mem_of_find?_eq_some hw
  have hname : w.name = n := by simpa using List.find?_some hw
  exact hn w hmem hname

end Continuum.Schema
