import Continuum.Lemmas.UowInvDef
import Continuum.Lemmas.Chain
import Continuum.Lemmas.AsOf

/-!
# Helper lemmas for the induction over the event trace (`Props/C02.lean`)

* one write (`upsert`, `closePrev`, `writeVersion`, `writeTable`) keeps the version primary key,
  only adds rows stamped `T`, and keeps `(key, tx, op, vals)` of every row not stamped `T`;
* the same for the folds `processOp` / `processOps`;
* `addAssoc` only adds (and replaces) rows stamped `T`;
* field-by-field description of `step` on `afterFlush`;
* the auxiliary facts C02 needs beyond `Inv`: at most one id is newer than the last commit, and an
  id is only created with cause.
-/

namespace Continuum

section Table
variable {K : Type} [DecidableEq K]

theorem pk_upsert {t : VTable K} {k : K} {T : Nat} {op : Op} {vals mods}
    (h : PKUnique t) : PKUnique (upsert t k T op vals mods) := by
  unfold upsert
  split
  · unfold PKUnique at *
    refine List.Pairwise.map _ ?_ h
    intro a b hab
    split <;> split <;> simpa using hab
  · rename_i hany
    simp only [List.any_eq_true, decide_eq_true_eq, not_exists, not_and] at hany
    unfold PKUnique at *
    rw [List.pairwise_append]
    refine ⟨h, by simp, ?_⟩
    intro a ha b hb
    simp only [List.mem_singleton] at hb
    subst hb
    intro hc
    exact hany a ha hc.1 hc.2

theorem pk_closePrev {t : VTable K} {k : K} {T : Nat}
    (h : PKUnique t) : PKUnique (closePrev t k T) := by
  unfold closePrev
  split
  · exact h
  · unfold PKUnique at *
    refine List.Pairwise.map _ ?_ h
    intro a b hab
    split <;> split <;> simpa using hab

theorem pk_writeVersion {t : VTable K} {k : K} {T : Nat} {op : Op} {vals mods}
    (h : PKUnique t) : PKUnique (writeVersion t k T op vals mods) :=
  pk_closePrev (pk_upsert h)

/-- `r2` is `r` up to the end column and the flags -/
def SameData (r r2 : VRow K) : Prop :=
  r2.key = r.key ∧ r2.tx = r.tx ∧ r2.op = r.op ∧ r2.vals = r.vals

omit [DecidableEq K] in
theorem SameData.trans {a b c : VRow K} (h1 : SameData a b) (h2 : SameData b c) : SameData a c := by
  unfold SameData at *
  obtain ⟨a1, a2, a3, a4⟩ := h1
  obtain ⟨b1, b2, b3, b4⟩ := h2
  exact ⟨b1.trans a1, b2.trans a2, b3.trans a3, b4.trans a4⟩

theorem keep_upsert {t : VTable K} {k : K} {T : Nat} {op : Op} {vals mods} :
    ∀ r ∈ t, r.tx ≠ T → ∃ r2 ∈ upsert t k T op vals mods, SameData r r2 := by
  intro r hr hne
  unfold upsert
  split
  · refine ⟨_, List.mem_map.2 ⟨r, hr, rfl⟩, ?_⟩
    have : ¬ (r.key = k ∧ r.tx = T) := fun h => hne h.2
    simp [this, SameData]
  · exact ⟨r, List.mem_append.2 (Or.inl hr), rfl, rfl, rfl, rfl⟩

theorem keep_closePrev {t : VTable K} {k : K} {T : Nat} :
    ∀ r ∈ t, ∃ r2 ∈ closePrev t k T, SameData r r2 := by
  intro r hr
  unfold closePrev
  split
  · exact ⟨r, hr, rfl, rfl, rfl, rfl⟩
  · refine ⟨_, List.mem_map.2 ⟨r, hr, rfl⟩, ?_⟩
    unfold SameData
    split <;> simp

theorem keep_writeVersion {t : VTable K} {k : K} {T : Nat} {op : Op} {vals mods} :
    ∀ r ∈ t, r.tx ≠ T → ∃ r2 ∈ writeVersion t k T op vals mods, SameData r r2 := by
  intro r hr hne
  obtain ⟨r1, hr1, h1⟩ := keep_upsert (k := k) (op := op) (vals := vals) (mods := mods) r hr hne
  obtain ⟨r2, hr2, h2⟩ := keep_closePrev (k := k) (T := T) r1 hr1
  exact ⟨r2, hr2, h1.trans h2⟩

theorem has_writeVersion {t : VTable K} {k : K} {T : Nat} {op : Op} {vals mods} (k' : K) (n : Nat) :
    Has (writeVersion t k T op vals mods) k' n ↔ Has t k' n ∨ (k' = k ∧ n = T) := by
  unfold writeVersion
  rw [has_closePrev, has_upsert]

theorem bounded_upsert {t : VTable K} {k : K} {T : Nat} {op : Op} {vals mods} (hb : Bounded t T) :
    Bounded (upsert t k T op vals mods) T := by
  intro r hr
  have : Has (upsert t k T op vals mods) r.key r.tx := ⟨r, hr, rfl, rfl⟩
  rw [has_upsert] at this
  rcases this with ⟨r0, hr0, _, h⟩ | ⟨_, h⟩
  · have := hb r0 hr0; omega
  · omega

end Table

/-! ## `writeTable`, `processOp`, `processOps` -/

theorem writeTable_cases (cfg : Cfg) (t : VTable TKey) (T : Nat) (e : OpEntry)
    (tc : Nat × List (Option Nat)) :
    ∃ k op vals mods,
      (cfg.strategy = .validity ∧ writeTable cfg t T e tc = writeVersion t k T op vals mods) ∨
      (cfg.strategy = .subquery ∧ writeTable cfg t T e tc = upsert t k T op vals mods) := by
  unfold writeTable
  cases h : cfg.strategy
  · exact ⟨_, _, _, _, Or.inl ⟨rfl, rfl⟩⟩
  · exact ⟨_, _, _, _, Or.inr ⟨rfl, rfl⟩⟩

/-- fold principle: what every single table write preserves, `processOps` preserves -/
theorem processOps_induct (cfg : Cfg) (T : Nat) (P : VTable TKey → Prop)
    (h : ∀ t e tc, P t → P (writeTable cfg t T e tc)) (t : VTable TKey) (ops : List OpEntry)
    (h0 : P t) : P (processOps cfg t T ops) := by
  have hop : ∀ (e : OpEntry) (tcs : List (Nat × List (Option Nat))) (t : VTable TKey), P t →
      P (tcs.foldl (fun t tc => writeTable cfg t T e tc) t) := by
    intro e tcs
    induction tcs with
    | nil => intro t ht; exact ht
    | cons tc tcs ih => intro t ht; exact ih _ (h t e tc ht)
  unfold processOps
  induction ops generalizing t with
  | nil => exact h0
  | cons e ops ih =>
    simp only [List.foldl_cons]
    apply ih
    split
    · exact h0
    · exact hop e _ t h0

theorem pk_processOps {cfg : Cfg} {t : VTable TKey} {T : Nat} {ops : List OpEntry}
    (h : PKUnique t) : PKUnique (processOps cfg t T ops) := by
  refine processOps_induct cfg T PKUnique ?_ t ops h
  intro t e tc ht
  obtain ⟨k, op, vals, mods, ⟨_, h⟩ | ⟨_, h⟩⟩ := writeTable_cases cfg t T e tc
  · rw [h]; exact pk_writeVersion ht
  · rw [h]; exact pk_upsert ht

theorem bounded_processOps {cfg : Cfg} {t : VTable TKey} {T : Nat} {ops : List OpEntry}
    (h : Bounded t T) : Bounded (processOps cfg t T ops) T := by
  refine processOps_induct cfg T (Bounded · T) ?_ t ops h
  intro t e tc ht
  obtain ⟨k, op, vals, mods, ⟨_, h⟩ | ⟨_, h⟩⟩ := writeTable_cases cfg t T e tc
  · rw [h]; exact bounded_writeVersion ht
  · rw [h]; exact bounded_upsert ht

theorem chain_processOps {cfg : Cfg} {t : VTable TKey} {T : Nat} {ops : List OpEntry}
    (hv : cfg.strategy = .validity) (hb : Bounded t T) (h : Chain t) :
    Chain (processOps cfg t T ops) := by
  refine (processOps_induct cfg T (fun t => Bounded t T ∧ Chain t) ?_ t ops ⟨hb, h⟩).2
  intro t e tc ht
  obtain ⟨k, op, vals, mods, ⟨_, h⟩ | ⟨hs, _⟩⟩ := writeTable_cases cfg t T e tc
  · rw [h]; exact ⟨bounded_writeVersion ht.1, chain_writeVersion ht.1 ht.2⟩
  · rw [hv] at hs; cases hs

/-- the fold only adds rows stamped `T` -/
theorem has_processOps {cfg : Cfg} {t : VTable TKey} {T : Nat} {ops : List OpEntry} :
    ∀ k n, Has (processOps cfg t T ops) k n → Has t k n ∨ n = T := by
  refine processOps_induct cfg T (fun t' => ∀ k n, Has t' k n → Has t k n ∨ n = T) ?_ t ops
    (fun _ _ h => Or.inl h)
  intro t' e tc ht k n hh
  obtain ⟨k0, op, vals, mods, ⟨_, h⟩ | ⟨_, h⟩⟩ := writeTable_cases cfg t' T e tc
  · rw [h, has_writeVersion] at hh
    rcases hh with hh | ⟨_, hh⟩
    · exact ht k n hh
    · exact Or.inr hh
  · rw [h, has_upsert] at hh
    rcases hh with hh | ⟨_, hh⟩
    · exact ht k n hh
    · exact Or.inr hh

/-- the fold keeps `(key, tx, op, vals)` of every row not stamped `T` -/
theorem keep_processOps {cfg : Cfg} {t : VTable TKey} {T : Nat} {ops : List OpEntry} :
    ∀ r ∈ t, r.tx ≠ T → ∃ r2 ∈ processOps cfg t T ops, SameData r r2 := by
  refine processOps_induct cfg T
    (fun t' => ∀ r ∈ t, r.tx ≠ T → ∃ r2 ∈ t', SameData r r2) ?_ t ops
    (fun r hr _ => ⟨r, hr, rfl, rfl, rfl, rfl⟩)
  intro t' e tc ht r hr hne
  obtain ⟨r1, hr1, h1⟩ := ht r hr hne
  have hne1 : r1.tx ≠ T := by rw [h1.2.1]; exact hne
  obtain ⟨k0, op, vals, mods, ⟨_, h⟩ | ⟨_, h⟩⟩ := writeTable_cases cfg t' T e tc
  · rw [h]
    obtain ⟨r2, hr2, h2⟩ := keep_writeVersion (k := k0) (op := op) (vals := vals) (mods := mods)
      r1 hr1 hne1
    exact ⟨r2, hr2, h1.trans h2⟩
  · rw [h]
    obtain ⟨r2, hr2, h2⟩ := keep_upsert (k := k0) (op := op) (vals := vals) (mods := mods)
      r1 hr1 hne1
    exact ⟨r2, hr2, h1.trans h2⟩

/-! ## `addAssoc` -/

theorem mem_addAssoc {a : List ARow} {T : Nat} {pending : List (Nat × Op × List Int)} :
    ∀ x ∈ (addAssoc a T pending).1, x ∈ a ∨ x.tx = T := by
  unfold addAssoc
  generalize false = b
  induction pending generalizing a b with
  | nil => intro x hx; exact Or.inl hx
  | cons p ps ih =>
    intro x hx
    simp only [List.foldl_cons] at hx
    rcases ih _ x hx with h | h
    · simp only [List.mem_append, List.mem_singleton] at h
      rcases h with h | rfl
      · exact Or.inl (List.mem_filter.1 h).1
      · exact Or.inr rfl
    · exact Or.inr h

/-! ## `Inv` is preserved by every well-formed event -/

theorem step_afterFlush_none {cfg : Cfg} {s : St} (h : s.uowD.cur = none) :
    step cfg s .afterFlush = { s with uow := some s.uowD } := by
  have h' : ({ s with uow := some s.uowD } : St).uowD.cur = none := h
  simp only [step]
  rw [h']

theorem step_afterFlush_some {cfg : Cfg} {s : St} {T : Nat} (h : s.uowD.cur = some T) :
    (step cfg s .afterFlush).db.versions = processOps cfg s.db.versions T s.uowD.ops ∧
    (step cfg s .afterFlush).db.assoc = (addAssoc s.db.assoc T s.uowD.pending).1 ∧
    (step cfg s .afterFlush).db.txs = s.db.txs ∧
    (step cfg s .afterFlush).committed = s.committed ∧
    (step cfg s .afterFlush).uowD.cur = some T := by
  have h' : ({ s with uow := some s.uowD } : St).uowD.cur = some T := h
  simp only [step]
  rw [h']
  exact ⟨rfl, rfl, rfl, rfl, rfl⟩

/-- `Inv` only reads the version / association / transaction tables, the committed snapshot and
the current id -/
theorem inv_congr {cfg : Cfg} {s s' : St} (h : Inv cfg s)
    (hv : s'.db.versions = s.db.versions) (ha : s'.db.assoc = s.db.assoc)
    (ht : s'.db.txs = s.db.txs) (hc : s'.committed = s.committed)
    (hu : s'.uowD.cur = s.uowD.cur) : Inv cfg s' := by
  refine ⟨⟨?_, ?_, ?_, ?_⟩, ?_, ?_, ?_, ?_, ?_, ?_, ?_⟩
  · rw [hv, ht]; exact h.db.txs_in
  · rw [ha, ht]; exact h.db.atxs_in
  · rw [hv]; exact h.db.pk
  · rw [hv]; exact h.db.chain
  · rw [hc]; exact h.committed
  · rw [hu, ht, hc]; exact h.cur_in
  · rw [ht, hc]; exact h.grow
  · rw [hu, ht, hc]; exact h.fresh
  · rw [hu, hv, hc]; exact h.rows_old_or_cur
  · rw [hu, ha, hc]; exact h.assoc_old_or_cur
  · rw [hv, hc]; exact h.past

theorem inv_createTx {cfg : Cfg} {s : St} {newId : Nat} (h : Inv cfg s)
    (hcur : s.uowD.cur = none) (hlt : ∀ x ∈ s.db.txs, x < newId) :
    Inv cfg (createTx s newId) := by
  have hv : (createTx s newId).db.versions = s.db.versions := rfl
  have ha : (createTx s newId).db.assoc = s.db.assoc := rfl
  have ht : (createTx s newId).db.txs = s.db.txs ++ [newId] := rfl
  have hc : (createTx s newId).committed = s.committed := rfl
  have hu : (createTx s newId).uowD.cur = some newId := rfl
  have hold : ∀ x ∈ s.db.txs, x ∈ s.committed.txs := by
    intro x hx
    refine Classical.byContradiction fun hn => ?_
    have := h.fresh x hx hn
    rw [hcur] at this; cases this
  refine ⟨⟨?_, ?_, ?_, ?_⟩, ?_, ?_, ?_, ?_, ?_, ?_, ?_⟩
  · rw [hv, ht]; intro r hr; exact List.mem_append.2 (Or.inl (h.db.txs_in r hr))
  · rw [ha, ht]; intro r hr; exact List.mem_append.2 (Or.inl (h.db.atxs_in r hr))
  · rw [hv]; exact h.db.pk
  · rw [hv]; exact h.db.chain
  · rw [hc]; exact h.committed
  · rw [hu, ht, hc]
    intro T hT
    cases hT
    refine ⟨by simp, ?_, ?_⟩
    · intro x hx
      rcases List.mem_append.1 hx with hx | hx
      · exact Nat.le_of_lt (hlt x hx)
      · simp only [List.mem_singleton] at hx; omega
    · intro hm
      have := hlt _ (h.grow _ hm)
      omega
  · rw [ht, hc]; intro x hx; exact List.mem_append.2 (Or.inl (h.grow x hx))
  · rw [hu, ht, hc]
    intro x hx hn
    rcases List.mem_append.1 hx with hx | hx
    · exact absurd (hold x hx) hn
    · simp only [List.mem_singleton] at hx; rw [hx]
  · rw [hu, hv, hc]
    intro r hr
    rcases h.rows_old_or_cur r hr with h1 | h1
    · exact Or.inl h1
    · rw [hcur] at h1; cases h1
  · rw [hu, ha, hc]
    intro a har
    rcases h.assoc_old_or_cur a har with h1 | h1
    · exact Or.inl h1
    · rw [hcur] at h1; cases h1
  · rw [hv, hc]; exact h.past

theorem inv_afterFlush {cfg : Cfg} {s : St} (h : Inv cfg s) : Inv cfg (step cfg s .afterFlush) := by
  cases hcur : s.uowD.cur with
  | none =>
    rw [step_afterFlush_none hcur]
    exact inv_congr h rfl rfl rfl rfl rfl
  | some T =>
    obtain ⟨hv, ha, ht, hc, hu⟩ := step_afterFlush_some (cfg := cfg) hcur
    obtain ⟨hTin, hTmax, hTnew⟩ := h.cur_in T hcur
    have hb : Bounded s.db.versions T := fun r hr => hTmax _ (h.db.txs_in r hr)
    refine ⟨⟨?_, ?_, ?_, ?_⟩, ?_, ?_, ?_, ?_, ?_, ?_, ?_⟩
    · rw [hv, ht]
      intro r hr
      rcases has_processOps r.key r.tx ⟨r, hr, rfl, rfl⟩ with ⟨r0, hr0, _, h0⟩ | h0
      · rw [← h0]; exact h.db.txs_in r0 hr0
      · rw [h0]; exact hTin
    · rw [ha, ht]
      intro a har
      rcases mem_addAssoc a har with h0 | h0
      · exact h.db.atxs_in a h0
      · rw [h0]; exact hTin
    · rw [hv]; exact pk_processOps h.db.pk
    · rw [hv]; intro hval; exact chain_processOps hval hb (h.db.chain hval)
    · rw [hc]; exact h.committed
    · rw [hu, ht, hc, ← hcur]; exact h.cur_in
    · rw [ht, hc]; exact h.grow
    · rw [hu, ht, hc, ← hcur]; exact h.fresh
    · rw [hu, hv, hc]
      intro r hr
      rcases has_processOps r.key r.tx ⟨r, hr, rfl, rfl⟩ with ⟨r0, hr0, hk0, h0⟩ | h0
      · rcases h.rows_old_or_cur r0 hr0 with ⟨r', hr', hk', ht'⟩ | h1
        · exact Or.inl ⟨r', hr', hk'.trans hk0, ht'.trans h0⟩
        · right; rw [← h0, ← h1, hcur]
      · right; rw [h0]
    · rw [hu, ha, hc]
      intro a har
      rcases mem_addAssoc a har with h0 | h0
      · rcases h.assoc_old_or_cur a h0 with h1 | h1
        · exact Or.inl h1
        · right; rw [← h1, hcur]
      · right; rw [h0]
    · rw [hv, hc]
      intro r' hr'
      obtain ⟨r, hr, hk, htx, hop, hvals⟩ := h.past r' hr'
      have hne : r.tx ≠ T := by
        rw [htx]; intro heq
        exact hTnew (heq ▸ h.committed.txs_in r' hr')
      obtain ⟨r2, hr2, h2k, h2t, h2o, h2v⟩ := keep_processOps (cfg := cfg) (ops := s.uowD.ops) r hr hne
      exact ⟨r2, hr2, h2k.trans hk, h2t.trans htx, h2o.trans hop, h2v.trans hvals⟩

theorem inv_commit {cfg : Cfg} {s : St} (h : Inv cfg s) : Inv cfg (step cfg s .commit) := by
  have hd : (step cfg s .commit).db = s.db := rfl
  have hc : (step cfg s .commit).committed = s.db := rfl
  have hu : (step cfg s .commit).uowD.cur = none := rfl
  refine ⟨?_, ?_, ?_, ?_, ?_, ?_, ?_, ?_⟩
  · rw [hd]; exact h.db
  · rw [hc]; exact h.db
  · rw [hu]; intro T hT; cases hT
  · rw [hd, hc]; exact fun x hx => hx
  · rw [hd, hc]; exact fun x hx hn => absurd hx hn
  · rw [hd, hc]; exact fun r hr => Or.inl ⟨r, hr, rfl, rfl⟩
  · rw [hd, hc]; exact fun a ha => Or.inl ha
  · rw [hd, hc]; exact fun r hr => ⟨r, hr, rfl, rfl, rfl, rfl⟩

theorem inv_rollback {cfg : Cfg} {s : St} (h : Inv cfg s) : Inv cfg (step cfg s .rollback) := by
  have hd : (step cfg s .rollback).db = s.committed := rfl
  have hc : (step cfg s .rollback).committed = s.committed := rfl
  have hu : (step cfg s .rollback).uowD.cur = none := rfl
  refine ⟨?_, ?_, ?_, ?_, ?_, ?_, ?_, ?_⟩
  · rw [hd]; exact h.committed
  · rw [hc]; exact h.committed
  · rw [hu]; intro T hT; cases hT
  · rw [hd, hc]; exact fun x hx => hx
  · rw [hd, hc]; exact fun x hx hn => absurd hx hn
  · rw [hd, hc]; exact fun r hr => Or.inl ⟨r, hr, rfl, rfl⟩
  · rw [hd, hc]; exact fun a ha => Or.inl ha
  · rw [hd, hc]; exact fun r hr => ⟨r, hr, rfl, rfl, rfl, rfl⟩

/-- one well-formed event preserves the invariant -/
theorem inv_step_aux (cfg : Cfg) (s : St) (e : Ev) (h : Inv cfg s) (hok : EvOK cfg s e) :
    Inv cfg (step cfg s e) := by
  have h0 : Inv cfg { s with uow := some s.uowD } := inv_congr h rfl rfl rfl rfl rfl
  cases e with
  | beforeFlush objs newId pm =>
    simp only [step]
    split
    · exact h0
    · split
      · exact h0
      · rename_i hmod hsome
        have hcur : s.uowD.cur = none := by
          have : ({ s with uow := some s.uowD } : St).uowD.cur = s.uowD.cur := rfl
          rw [this] at hsome
          cases hc : s.uowD.cur with
          | none => rfl
          | some T => rw [hc] at hsome; simp at hsome
        simp only [EvOK] at hok
        have hmod' : (objs.any (objModified cfg) || pm) = true := by
          revert hmod; cases (objs.any (objModified cfg) || pm) <;> simp
        exact inv_createTx h0 hcur (hok hmod' hcur)
  | manualTx newId =>
    simp only [EvOK] at hok
    simp only [step]
    exact inv_createTx h0 hok.1 hok.2
  | ins cls pk vals changed =>
    simp only [step]
    split
    · exact h
    · exact inv_congr h rfl rfl rfl rfl rfl
  | upd cls pk vals cc rc kc kr =>
    simp only [step]
    split
    · exact h
    · split
      · exact inv_congr h rfl rfl rfl rfl rfl
      · split
        · exact inv_congr h rfl rfl rfl rfl rfl
        · exact inv_congr h rfl rfl rfl rfl rfl
  | del cls pk vals =>
    simp only [step]
    split
    · exact h
    · exact inv_congr h rfl rfl rfl rfl rfl
  | assoc tbl op links =>
    simp only [step]
    split
    · exact h
    · exact inv_congr h rfl rfl rfl rfl rfl
  | afterFlush => exact inv_afterFlush h
  | commit => exact inv_commit h
  | rollback => exact inv_rollback h
  | spBegin => exact inv_congr h rfl rfl rfl rfl rfl
  | spCommit => exact inv_congr h rfl rfl rfl rfl rfl
  | spRollback => exact absurd hok (by simp [EvOK])

/-! ## traces -/

theorem run_append (cfg : Cfg) (s : St) (a b : List Ev) :
    run cfg s (a ++ b) = run cfg (run cfg s a) b := by
  unfold run; exact List.foldl_append

theorem run_cons (cfg : Cfg) (s : St) (e : Ev) (es : List Ev) :
    run cfg s (e :: es) = run cfg (step cfg s e) es := rfl

theorem step_committed {cfg : Cfg} {s : St} {e : Ev} (h : e.isEnd = false) :
    (step cfg s e).committed = s.committed := by
  cases e <;> simp only [step, createTx] <;> (repeat' split) <;> first | rfl | simp [Ev.isEnd] at h

theorem run_committed {cfg : Cfg} {s : St} {evs : List Ev} (h : ∀ e ∈ evs, e.isEnd = false) :
    (run cfg s evs).committed = s.committed := by
  induction evs generalizing s with
  | nil => rfl
  | cons e es ih =>
    rw [run_cons, ih (fun e he => h e (List.mem_cons_of_mem _ he)),
      step_committed (h e List.mem_cons_self)]

/-! ## a transaction record is only created with cause -/

theorem hasCause_cons (cfg : Cfg) (e : Ev) (es : List Ev) :
    hasCause cfg (e :: es) = (hasCause cfg [e] || hasCause cfg es) := by
  simp [hasCause]

/- OLD STATEMENT (false since a savepoint rollback restores the unit of work remembered at
SAVEPOINT):

    theorem step_cur_cause {cfg : Cfg} {s : St} {e : Ev}
        (h : (step cfg s e).uowD.cur.isSome = true) :
        s.uowD.cur.isSome = true ∨ hasCause cfg [e] = true

Counterexample: `s := { sps := [({}, some { cur := some 1 })] }` (no unit of work, but the savepoint
remembers one with a current transaction) and `e := .spRollback`: after the step the current
transaction is `some 1`, before it there was none, and `.spRollback` is no cause.  The corrected
statement excludes that one event (which `WF` excludes anyway: `wf_no_spRollback`). -/
theorem step_cur_cause_corrected {cfg : Cfg} {s : St} {e : Ev} (hsp : e ≠ .spRollback)
    (h : (step cfg s e).uowD.cur.isSome = true) :
    s.uowD.cur.isSome = true ∨ hasCause cfg [e] = true := by
  have h0 : ({ s with uow := some s.uowD } : St).uowD = s.uowD := rfl
  cases e with
  | beforeFlush objs newId pm =>
    simp only [step] at h
    split at h
    · exact Or.inl h
    · split at h
      · exact Or.inl h
      · rename_i hmod _
        right
        simp only [hasCause, List.any_cons, List.any_nil, Bool.or_false]
        revert hmod; cases (objs.any (objModified cfg) || pm) <;> simp
  | manualTx newId => right; rfl
  | ins cls pk vals changed =>
    simp only [step] at h
    split at h
    · exact Or.inl h
    · exact Or.inl h
  | upd cls pk vals cc rc kc kr =>
    simp only [step] at h
    split at h
    · exact Or.inl h
    · split at h
      · exact Or.inl h
      · split at h
        · exact Or.inl h
        · exact Or.inl h
  | del cls pk vals =>
    simp only [step] at h
    split at h
    · exact Or.inl h
    · exact Or.inl h
  | assoc tbl op links =>
    simp only [step] at h
    split at h
    · exact Or.inl h
    · exact Or.inl h
  | afterFlush =>
    left
    cases hcur : s.uowD.cur with
    | none =>
      rw [step_afterFlush_none hcur] at h
      rw [← hcur]; exact h
    | some T => rfl
  | commit => exact absurd h (by simp [step, St.uowD])
  | rollback => exact absurd h (by simp [step, St.uowD])
  | spBegin => exact Or.inl h
  | spCommit => exact Or.inl h
  | spRollback => exact absurd rfl hsp

/-- a well-formed trace contains no savepoint rollback -/
theorem wf_no_spRollback {cfg : Cfg} {s : St} {evs : List Ev} (hwf : WF cfg s evs) :
    ∀ e ∈ evs, e ≠ .spRollback := by
  induction evs generalizing s with
  | nil => intro e he; cases he
  | cons e es ih =>
    intro x hx
    rcases List.mem_cons.1 hx with rfl | hx
    · intro heq
      have h1 := hwf.1
      rw [heq] at h1
      exact h1
    · exact ih hwf.2 x hx

/- OLD STATEMENT (false for the same reason as `step_cur_cause`, same counterexample with
`evs := [.spRollback]`):

    theorem run_cur_cause {cfg : Cfg} {s : St} {evs : List Ev}
        (h : (run cfg s evs).uowD.cur.isSome = true) :
        s.uowD.cur.isSome = true ∨ hasCause cfg evs = true -/
theorem run_cur_cause_corrected {cfg : Cfg} {s : St} {evs : List Ev}
    (hsp : ∀ e ∈ evs, e ≠ .spRollback)
    (h : (run cfg s evs).uowD.cur.isSome = true) :
    s.uowD.cur.isSome = true ∨ hasCause cfg evs = true := by
  induction evs generalizing s with
  | nil => exact Or.inl h
  | cons e es ih =>
    rw [run_cons] at h
    rw [hasCause_cons]
    rcases ih (fun e he => hsp e (List.mem_cons_of_mem _ he)) h with h1 | h1
    · rcases step_cur_cause_corrected (hsp e List.mem_cons_self) h1 with h2 | h2
      · exact Or.inl h2
      · right; simp [h2]
    · right; simp [h1]

/-! ## at most one id is newer than the last commit -/

def NewOne (s : St) : Prop :=
  (s.db.txs.filter (fun x => !s.committed.txs.contains x)).length ≤ 1

theorem newOne_congr {s s' : St} (h : NewOne s) (ht : s'.db.txs = s.db.txs)
    (hc : s'.committed = s.committed) : NewOne s' := by
  unfold NewOne; rw [ht, hc]; exact h

theorem newOne_of_eq {s : St} (h : s.db.txs = s.committed.txs) : NewOne s := by
  unfold NewOne
  rw [h]
  have : (s.committed.txs.filter (fun x => !s.committed.txs.contains x)) = [] := by
    rw [List.filter_eq_nil_iff]
    intro x hx
    simp [hx]
  rw [this]; simp

theorem newOne_createTx {cfg : Cfg} {s : St} {newId : Nat} (h : Inv cfg s)
    (hcur : s.uowD.cur = none) : NewOne (createTx s newId) := by
  have ht : (createTx s newId).db.txs = s.db.txs ++ [newId] := rfl
  have hc : (createTx s newId).committed = s.committed := rfl
  unfold NewOne
  rw [ht, hc, List.filter_append]
  have : (s.db.txs.filter (fun x => !s.committed.txs.contains x)) = [] := by
    rw [List.filter_eq_nil_iff]
    intro x hx hn
    have hn' : x ∉ s.committed.txs := by simpa using hn
    have := h.fresh x hx hn'
    rw [hcur] at this; cases this
  rw [this]
  simp only [List.nil_append]
  exact Nat.le_trans (List.length_filter_le _ _) (by simp)

theorem newOne_step {cfg : Cfg} {s : St} {e : Ev} (h : Inv cfg s) (hok : EvOK cfg s e)
    (hn : NewOne s) : NewOne (step cfg s e) := by
  have h0 : Inv cfg { s with uow := some s.uowD } := inv_congr h rfl rfl rfl rfl rfl
  have hn0 : NewOne { s with uow := some s.uowD } := newOne_congr hn rfl rfl
  cases e with
  | beforeFlush objs newId pm =>
    simp only [step]
    split
    · exact hn0
    · split
      · exact hn0
      · rename_i hmod hsome
        have hcur : s.uowD.cur = none := by
          have : ({ s with uow := some s.uowD } : St).uowD.cur = s.uowD.cur := rfl
          rw [this] at hsome
          cases hc : s.uowD.cur with
          | none => rfl
          | some T => rw [hc] at hsome; simp at hsome
        exact newOne_createTx h0 hcur
  | manualTx newId =>
    simp only [EvOK] at hok
    simp only [step]
    exact newOne_createTx h0 hok.1
  | ins cls pk vals changed =>
    simp only [step]
    split
    · exact hn
    · exact newOne_congr hn rfl rfl
  | upd cls pk vals cc rc kc kr =>
    simp only [step]
    split
    · exact hn
    · split
      · exact newOne_congr hn rfl rfl
      · split
        · exact newOne_congr hn rfl rfl
        · exact newOne_congr hn rfl rfl
  | del cls pk vals =>
    simp only [step]
    split
    · exact hn
    · exact newOne_congr hn rfl rfl
  | assoc tbl op links =>
    simp only [step]
    split
    · exact hn
    · exact newOne_congr hn rfl rfl
  | afterFlush =>
    cases hcur : s.uowD.cur with
    | none => rw [step_afterFlush_none hcur]; exact hn0
    | some T =>
      obtain ⟨_, _, ht, hc, _⟩ := step_afterFlush_some (cfg := cfg) hcur
      exact newOne_congr hn ht hc
  | commit => exact newOne_of_eq rfl
  | rollback => exact newOne_of_eq rfl
  | spBegin => exact newOne_congr hn rfl rfl
  | spCommit => exact newOne_congr hn rfl rfl
  | spRollback => exact absurd hok (by simp [EvOK])

theorem inv_newOne_run {cfg : Cfg} {s : St} {evs : List Ev} (h : Inv cfg s) (hn : NewOne s)
    (hwf : WF cfg s evs) : Inv cfg (run cfg s evs) ∧ NewOne (run cfg s evs) := by
  induction evs generalizing s with
  | nil => exact ⟨h, hn⟩
  | cons e es ih =>
    rw [run_cons]
    exact ih (inv_step_aux cfg s e h hwf.1) (newOne_step h hwf.1 hn) hwf.2

end Continuum
