import Continuum.Spec.Links
import Continuum.Lemmas.UowInv
import Continuum.Lemmas.RelLemmas
import Continuum.Props.C02

/-!
# Lemmas for C10 (many-to-many link history)

Three layers.

1. The association statements of an event list as one flat list (`stmts`), and `lastTouch`,
   `touchedLinks`, membership in `applyAssoc` re-expressed over it (`lastOp`).
2. `addAssoc` as a fold on the row list alone (`addA`), its rows characterised exactly
   (`mem_addA`), one row per link and transaction (`nodup_addA`), and what replaying the rows
   yields (`linkedNow_iff`, `c10_core`).
3. The state machine: along the events of one database transaction the association-version table
   is `addA A0 T flushed` where `flushed ++ pending` are the statements so far (`LinkSt`).
-/

namespace Continuum

theorem list_snoc_induct {α : Type} {P : List α → Prop} (h0 : P [])
    (h1 : ∀ l a, P l → P (l ++ [a])) (l : List α) : P l := by
  have h : ∀ r : List α, P r.reverse := by
    intro r
    induction r with
    | nil => exact h0
    | cons a r ih => rw [List.reverse_cons]; exact h1 _ _ ih
  have := h l.reverse
  rwa [List.reverse_reverse] at this

theorem filter_sublist_of_imp {α : Type} {p q : α → Bool} (h : ∀ a, p a = true → q a = true)
    (l : List α) : (l.filter p).Sublist (l.filter q) := by
  induction l with
  | nil => exact List.Sublist.refl _
  | cons a l ih =>
    by_cases hp : p a = true
    · rw [List.filter_cons_of_pos hp, List.filter_cons_of_pos (h a hp)]
      exact ih.cons_cons a
    · rw [List.filter_cons_of_neg hp]
      by_cases hq : q a = true
      · rw [List.filter_cons_of_pos hq]; exact ih.cons a
      · rw [List.filter_cons_of_neg hq]; exact ih

/-! ## statements -/

/-- a pending association statement: (table, operation, link) -/
abbrev Stmt := Nat × Op × List Int

/-- the statements one event adds to `pending_statements` -/
def stmtsOf (cfg : Cfg) : Ev → List Stmt
  | .assoc tbl op links =>
    if cfg.assocTables.contains tbl then links.map (fun l => (tbl, op, l)) else []
  | _ => []

def stmts (cfg : Cfg) (evs : List Ev) : List Stmt := evs.flatMap (stmtsOf cfg)

theorem stmts_snoc (cfg : Cfg) (evs : List Ev) (e : Ev) :
    stmts cfg (evs ++ [e]) = stmts cfg evs ++ stmtsOf cfg e := by
  simp [stmts, List.flatMap_append]

/-- the operation of the last statement on link `x` -/
def lastOp (P : List Stmt) (x : Link) : Option Op :=
  P.foldl (fun acc p => if p.1 = x.1 ∧ p.2.2 = x.2 then some p.2.1 else acc) none

theorem lastOp_nil (x : Link) : lastOp [] x = none := rfl

theorem lastOp_snoc (P : List Stmt) (p : Stmt) (x : Link) :
    lastOp (P ++ [p]) x = if p.1 = x.1 ∧ p.2.2 = x.2 then some p.2.1 else lastOp P x := by
  simp [lastOp, List.foldl_append]

theorem foldl_lastOp_map (tbl : Nat) (op : Op) (links : List (List Int)) (x : Link)
    (acc : Option Op) :
    (links.map (fun l => ((tbl, op, l) : Stmt))).foldl
      (fun acc p => if p.1 = x.1 ∧ p.2.2 = x.2 then some p.2.1 else acc) acc
    = if tbl = x.1 ∧ x.2 ∈ links then some op else acc := by
  induction links generalizing acc with
  | nil => simp
  | cons l ls ih =>
    simp only [List.map_cons, List.foldl_cons, ih, List.mem_cons]
    by_cases h1 : tbl = x.1 <;> by_cases h2 : x.2 ∈ ls <;> by_cases h3 : l = x.2 <;>
      simp [h1, h2, h3, eq_comm]

theorem lastOp_append_map (P : List Stmt) (tbl : Nat) (op : Op) (links : List (List Int))
    (x : Link) :
    lastOp (P ++ links.map (fun l => ((tbl, op, l) : Stmt))) x
      = if tbl = x.1 ∧ x.2 ∈ links then some op else lastOp P x := by
  unfold lastOp
  rw [List.foldl_append, foldl_lastOp_map]

theorem lastTouch_snoc (cfg : Cfg) (evs : List Ev) (e : Ev) (x : Link) :
    lastTouch cfg (evs ++ [e]) x = (match e with
      | .assoc tbl op links =>
        if cfg.assocTables.contains tbl && links.contains x.2 && tbl = x.1 then some op
        else lastTouch cfg evs x
      | _ => lastTouch cfg evs x) := by
  unfold lastTouch
  rw [List.foldl_append]
  cases e <;> rfl

theorem lastTouch_eq (cfg : Cfg) (evs : List Ev) (x : Link) :
    lastTouch cfg evs x = lastOp (stmts cfg evs) x := by
  induction evs using list_snoc_induct with
  | h0 => rfl
  | h1 evs e ih =>
    rw [lastTouch_snoc, stmts_snoc]
    cases e with
    | assoc tbl op links =>
      simp only [stmtsOf]
      by_cases hc : cfg.assocTables.contains tbl = true
      · have hb : (cfg.assocTables.contains tbl && links.contains x.2 && decide (tbl = x.1)) =
            decide (tbl = x.1 ∧ x.2 ∈ links) := by
          rw [hc]; simp [Bool.and_comm]
        rw [if_pos hc, lastOp_append_map, ih, hb]
        simp only [decide_eq_true_eq]
      · have hf : cfg.assocTables.contains tbl = false := Bool.eq_false_iff.2 hc
        rw [if_neg hc, List.append_nil, ih, hf]
        simp
    | _ => simp only [stmtsOf, List.append_nil, ih]

theorem touchedLinks_eq (cfg : Cfg) (evs : List Ev) :
    touchedLinks cfg evs = (stmts cfg evs).map (fun p => ((p.1, p.2.2) : Link)) := by
  unfold touchedLinks stmts
  rw [List.map_flatMap]
  congr 1
  funext e
  cases e with
  | assoc tbl op links =>
    simp only [stmtsOf]
    split
    · simp [List.map_map, Function.comp_def]
    · rfl
  | _ => rfl

/-- a link named by a statement has a last operation -/
theorem lastOp_isSome_of_mem (P : List Stmt) (x : Link)
    (h : x ∈ P.map (fun p => ((p.1, p.2.2) : Link))) : ∃ op, lastOp P x = some op := by
  induction P using list_snoc_induct with
  | h0 => cases h
  | h1 P p ih =>
    rw [lastOp_snoc]
    by_cases hp : p.1 = x.1 ∧ p.2.2 = x.2
    · exact ⟨p.2.1, by rw [if_pos hp]⟩
    · rw [if_neg hp]
      apply ih
      rw [List.map_append, List.mem_append] at h
      rcases h with h | h
      · exact h
      · simp only [List.map_cons, List.map_nil, List.mem_singleton] at h
        exact absurd ⟨(congrArg Prod.fst h).symm, (congrArg Prod.snd h).symm⟩ hp

theorem lastOp_none_of_nil {P : List Stmt} (h : P = []) (x : Link) : lastOp P x = none := by
  subst h; rfl

/-! ## the link set -/

/-- membership after replaying statements, given the last operation on the link -/
def present (o : Option Op) (base : Prop) : Prop :=
  match o with
  | none => base
  | some op => op ≠ .delete

theorem mem_foldl_add (tbl : Nat) (links : List (List Int)) (l : List Link) (y : Link) :
    y ∈ links.foldl (fun acc k => if acc.contains (tbl, k) then acc else acc ++ [(tbl, k)]) l ↔
      y ∈ l ∨ (tbl = y.1 ∧ y.2 ∈ links) := by
  induction links generalizing l with
  | nil => simp
  | cons k ks ih =>
    rw [List.foldl_cons, ih]
    have hy : y = (tbl, k) ↔ (tbl = y.1 ∧ k = y.2) := by
      obtain ⟨a, b⟩ := y
      simp [eq_comm]
    by_cases hc : l.contains (tbl, k) = true
    · rw [if_pos hc]
      have hm : (tbl, k) ∈ l := by simpa using hc
      constructor
      · rintro (h | ⟨h1, h2⟩)
        · exact Or.inl h
        · exact Or.inr ⟨h1, List.mem_cons_of_mem _ h2⟩
      · rintro (h | ⟨h1, h2⟩)
        · exact Or.inl h
        · rcases List.mem_cons.1 h2 with h2 | h2
          · left
            have : y = (tbl, k) := hy.2 ⟨h1, h2.symm⟩
            rw [this]; exact hm
          · exact Or.inr ⟨h1, h2⟩
    · rw [if_neg hc]
      simp only [List.mem_append, List.mem_cons, List.not_mem_nil, or_false, hy]
      constructor
      · rintro ((h | ⟨h1, h2⟩) | ⟨h1, h2⟩)
        · exact Or.inl h
        · exact Or.inr ⟨h1, Or.inl h2.symm⟩
        · exact Or.inr ⟨h1, Or.inr h2⟩
      · rintro (h | ⟨h1, h2 | h2⟩)
        · exact Or.inl (Or.inl h)
        · exact Or.inl (Or.inr ⟨h1, h2.symm⟩)
        · exact Or.inr ⟨h1, h2⟩

theorem mem_applyAssocEv_assoc (cfg : Cfg) (l : List Link) (tbl : Nat) (op : Op)
    (links : List (List Int)) (hc : cfg.assocTables.contains tbl = true) (x : Link) :
    x ∈ applyAssocEv cfg l (.assoc tbl op links) ↔
      if tbl = x.1 ∧ x.2 ∈ links then op ≠ .delete else x ∈ l := by
  have hx : x ∈ links.map (fun k => ((tbl, k) : Link)) ↔ (tbl = x.1 ∧ x.2 ∈ links) := by
    obtain ⟨a, b⟩ := x
    simp only [List.mem_map, Prod.mk.injEq]
    constructor
    · rintro ⟨k, hk, h1, h2⟩; exact ⟨h1, h2 ▸ hk⟩
    · rintro ⟨h1, h2⟩; exact ⟨b, h2, h1, rfl⟩
  simp only [applyAssocEv, hc, Bool.not_true, Bool.false_eq_true, if_false]
  cases op with
  | delete =>
    simp only [List.mem_filter, Bool.not_eq_true', List.contains_eq_mem, decide_eq_false_iff_not, hx]
    by_cases h : tbl = x.1 ∧ x.2 ∈ links
    · simp [h]
    · simp [h]
  | insert =>
    simp only [mem_foldl_add]
    by_cases h : tbl = x.1 ∧ x.2 ∈ links
    · simp [h]
    · simp [h]
  | update =>
    simp only [mem_foldl_add]
    by_cases h : tbl = x.1 ∧ x.2 ∈ links
    · simp [h]
    · simp [h]

theorem applyAssoc_snoc (cfg : Cfg) (l : List Link) (evs : List Ev) (e : Ev) :
    applyAssoc cfg l (evs ++ [e]) = applyAssocEv cfg (applyAssoc cfg l evs) e := by
  simp [applyAssoc, List.foldl_append]

/-- replaying the statements changes the membership of exactly the touched links, to present iff
the last touch is not a DELETE -/
theorem mem_applyAssoc (cfg : Cfg) (l : List Link) (evs : List Ev) (x : Link) :
    x ∈ applyAssoc cfg l evs ↔ present (lastOp (stmts cfg evs) x) (x ∈ l) := by
  induction evs using list_snoc_induct with
  | h0 => rfl
  | h1 evs e ih =>
    rw [applyAssoc_snoc, stmts_snoc]
    cases e with
    | assoc tbl op links =>
      by_cases hc : cfg.assocTables.contains tbl = true
      · rw [mem_applyAssocEv_assoc cfg _ tbl op links hc]
        simp only [stmtsOf, if_pos hc]
        rw [lastOp_append_map]
        by_cases h : tbl = x.1 ∧ x.2 ∈ links
        · rw [if_pos h, if_pos h]; rfl
        · rw [if_neg h, if_neg h]; exact ih
      · simp only [stmtsOf, if_neg hc, List.append_nil]
        have : applyAssocEv cfg (applyAssoc cfg l evs) (.assoc tbl op links) = applyAssoc cfg l evs := by
          have hm : tbl ∉ cfg.assocTables := by simpa using hc
          simp [applyAssocEv, hm]
        rw [this]; exact ih
    | _ => simpa only [stmtsOf, List.append_nil, applyAssocEv] using ih

/-! ## `addAssoc` on the row list alone -/

def stmtRow (T : Nat) (p : Stmt) : ARow := { tbl := p.1, link := p.2.2, tx := T, op := p.2.1 }

def addA (a : List ARow) (T : Nat) (P : List Stmt) : List ARow :=
  P.foldl (fun acc p =>
    acc.filter (fun r => !(r.tbl = p.1 ∧ r.link = p.2.2 ∧ r.tx = T)) ++ [stmtRow T p]) a

theorem addAssoc_eq (a : List ARow) (T : Nat) (P : List Stmt) :
    addAssoc a T P = (addA a T P, false) := by
  unfold addAssoc addA
  generalize false = b
  induction P generalizing a with
  | nil => rfl
  | cons p ps ih => simp only [List.foldl_cons]; exact ih _

theorem addA_nil (a : List ARow) (T : Nat) : addA a T [] = a := rfl

theorem addA_append (a : List ARow) (T : Nat) (P Q : List Stmt) :
    addA (addA a T P) T Q = addA a T (P ++ Q) := by
  unfold addA; rw [List.foldl_append]

theorem addA_snoc (a : List ARow) (T : Nat) (P : List Stmt) (p : Stmt) :
    addA a T (P ++ [p]) =
      (addA a T P).filter (fun r => !(r.tbl = p.1 ∧ r.link = p.2.2 ∧ r.tx = T)) ++ [stmtRow T p] := by
  unfold addA; rw [List.foldl_append]; rfl

/-- the rows after the statements `P` of transaction `T`: the old rows, and for each link named
in `P` one row stamped `T` carrying the operation of the last statement on it -/
theorem mem_addA {A0 : List ARow} {T : Nat} (h0 : ∀ r ∈ A0, r.tx ≠ T) (P : List Stmt) (r : ARow) :
    r ∈ addA A0 T P ↔ r ∈ A0 ∨ (r.tx = T ∧ lastOp P (r.tbl, r.link) = some r.op) := by
  induction P using list_snoc_induct with
  | h0 => simp [addA_nil, lastOp_nil]
  | h1 P p ih =>
    rw [addA_snoc, lastOp_snoc, List.mem_append, List.mem_filter, ih, List.mem_singleton]
    simp only [Bool.not_eq_true', decide_eq_false_iff_not]
    have hrow : r = stmtRow T p ↔ (r.tbl = p.1 ∧ r.link = p.2.2 ∧ r.tx = T ∧ r.op = p.2.1) := by
      cases r; simp [stmtRow]
    by_cases hk : p.1 = r.tbl ∧ p.2.2 = r.link
    · rw [if_pos hk, hrow]
      obtain ⟨hk1, hk2⟩ := hk
      constructor
      · rintro (⟨h | h, hnot⟩ | ⟨_, _, h3, h4⟩)
        · exact Or.inl h
        · exact absurd ⟨hk1.symm, hk2.symm, h.1⟩ hnot
        · exact Or.inr ⟨h3, by rw [h4]⟩
      · rintro (h | ⟨h3, h4⟩)
        · exact Or.inl ⟨Or.inl h, fun hh => h0 r h hh.2.2⟩
        · exact Or.inr ⟨hk1.symm, hk2.symm, h3, (Option.some.inj h4).symm⟩
    · rw [if_neg hk, hrow]
      constructor
      · rintro (⟨h, _⟩ | ⟨h1, h2, _, _⟩)
        · exact h
        · exact absurd ⟨h1.symm, h2.symm⟩ hk
      · intro h
        exact Or.inl ⟨h, fun hh => hk ⟨hh.1.symm, hh.2.1.symm⟩⟩

/-- one row per link and transaction -/
theorem nodup_addA {A : List ARow} {T : Nat} (P : List Stmt)
    (h : ((A.filter (fun r => decide (r.tx = T))).map (fun r => ((r.tbl, r.link) : Link))).Nodup) :
    (((addA A T P).filter (fun r => decide (r.tx = T))).map (fun r => ((r.tbl, r.link) : Link))).Nodup := by
  induction P using list_snoc_induct with
  | h0 => exact h
  | h1 P p ih =>
    rw [addA_snoc, List.filter_append, List.map_append, List.nodup_append]
    refine ⟨?_, ?_, ?_⟩
    · refine List.Nodup.sublist ?_ ih
      apply List.Sublist.map
      apply List.Sublist.filter
      exact List.filter_sublist
    · simp only [stmtRow, List.filter_cons, List.filter_nil, decide_true, if_true, List.map_cons, List.map_nil]
      simp
    · intro a ha b hb
      simp only [stmtRow, List.filter_cons, List.filter_nil, decide_true, if_true, List.map_cons, List.map_nil,
        List.mem_singleton] at hb
      simp only [List.mem_map, List.mem_filter, decide_eq_true_eq, Bool.not_eq_true',
        decide_eq_false_iff_not] at ha
      obtain ⟨r, ⟨⟨_, hne⟩, hT⟩, rfl⟩ := ha
      rw [hb]
      intro heq
      exact hne ⟨congrArg Prod.fst heq, congrArg Prod.snd heq, hT⟩

/-! ## replaying the rows -/

theorem le_maxATx (a : List ARow) : ∀ r ∈ a, r.tx ≤ maxATx a := by
  unfold maxATx
  have : ∀ (l : List Nat) (m : Nat), m ≤ l.foldl max m ∧ ∀ x ∈ l, x ≤ l.foldl max m := by
    intro l
    induction l with
    | nil => intro m; exact ⟨Nat.le_refl _, fun x hx => by cases hx⟩
    | cons y ys ih =>
      intro m
      obtain ⟨h1, h2⟩ := ih (max m y)
      simp only [List.foldl_cons]
      refine ⟨by omega, ?_⟩
      intro x hx
      rcases List.mem_cons.1 hx with rfl | hx
      · omega
      · exact h2 x hx
  intro r hr
  exact (this _ 0).2 _ (List.mem_map.2 ⟨r, hr, rfl⟩)

/-- replaying all rows shows the link iff one of its newest rows is not a DELETE -/
theorem linkedNow_iff (a : List ARow) (x : Link) :
    linkedNow a x = true ↔ ∃ r ∈ a, r.tbl = x.1 ∧ r.link = x.2 ∧ r.op ≠ .delete ∧
      ∀ r' ∈ a, r'.tbl = x.1 → r'.link = x.2 → r'.tx ≤ r.tx := by
  unfold linkedNow linkedAsOf
  simp only [List.any_eq_true, decide_eq_true_eq]
  constructor
  · rintro ⟨r, hr, h1, h2, h3, h4⟩
    refine ⟨r, hr, h1, h2, h3, ?_⟩
    intro r' hr' h1' h2'
    have := (List.max?_eq_some_iff.1 h4.symm).2 r'.tx
      (mem_linkTxs.2 ⟨r', hr', h1', h2', le_maxATx a r' hr', rfl⟩)
    exact this
  · rintro ⟨r, hr, h1, h2, h3, h4⟩
    refine ⟨r, hr, h1, h2, h3, ?_⟩
    symm
    rw [List.max?_eq_some_iff]
    refine ⟨mem_linkTxs.2 ⟨r, hr, h1, h2, le_maxATx a r hr, rfl⟩, ?_⟩
    intro n hn
    obtain ⟨r', hr', h1', h2', _, rfl⟩ := mem_linkTxs.1 hn
    exact h4 r' hr' h1' h2'

theorem linkInv_nil : LinkInv [] [] :=
  ⟨fun _ h => (by cases h), fun _ h _ => (by cases h)⟩

/-- the replay invariant after the statements `P` of transaction `T`, newer than every old row -/
theorem linkInv_addA {A0 : List ARow} {T : Nat} {links0 L : List Link} (P : List Stmt)
    (hlt : ∀ r ∈ A0, r.tx < T) (hinv : LinkInv A0 links0)
    (hL : ∀ x, x ∈ L ↔ present (lastOp P x) (x ∈ links0)) :
    LinkInv (addA A0 T P) L := by
  have h0 : ∀ r ∈ A0, r.tx ≠ T := fun r hr => Nat.ne_of_lt (hlt r hr)
  have hle : ∀ r ∈ addA A0 T P, r.tx ≤ T := by
    intro r hr
    rcases (mem_addA h0 P r).1 hr with h | ⟨h, _⟩
    · exact Nat.le_of_lt (hlt r h)
    · omega
  constructor
  · intro x hx
    have hp := (hL x).1 hx
    rw [linkedNow_iff]
    cases hop : lastOp P x with
    | none =>
      rw [hop] at hp
      obtain ⟨r, hr, h1, h2, h3, h4⟩ := (linkedNow_iff A0 x).1 (hinv.1 x hp)
      refine ⟨r, (mem_addA h0 P r).2 (Or.inl hr), h1, h2, h3, ?_⟩
      intro r' hr' h1' h2'
      rcases (mem_addA h0 P r').1 hr' with h | ⟨_, h⟩
      · exact h4 r' h h1' h2'
      · rw [h1', h2', hop] at h; cases h
    | some op =>
      rw [hop] at hp
      refine ⟨⟨x.1, x.2, T, op⟩, (mem_addA h0 P _).2 (Or.inr ⟨rfl, hop⟩), rfl, rfl, hp, ?_⟩
      intro r' hr' _ _
      exact hle r' hr'
  · intro r hr hlinked
    rw [hL]
    obtain ⟨r1, hr1, h1, h2, h3, h4⟩ := (linkedNow_iff _ _).1 hlinked
    simp only at h1 h2
    cases hop : lastOp P (r.tbl, r.link) with
    | none =>
      have hr1' : r1 ∈ A0 := by
        rcases (mem_addA h0 P r1).1 hr1 with h | ⟨_, h⟩
        · exact h
        · rw [h1, h2, hop] at h; cases h
      have : linkedNow A0 (r1.tbl, r1.link) = true := by
        rw [linkedNow_iff]
        refine ⟨r1, hr1', rfl, rfl, h3, ?_⟩
        intro r' hr' h1' h2'
        exact h4 r' ((mem_addA h0 P r').2 (Or.inl hr')) (h1'.trans h1) (h2'.trans h2)
      have := hinv.2 r1 hr1' this
      rw [h1, h2] at this
      exact this
    | some op =>
      have hrow : (⟨r.tbl, r.link, T, op⟩ : ARow) ∈ addA A0 T P :=
        (mem_addA h0 P _).2 (Or.inr ⟨rfl, hop⟩)
      have hge := h4 _ hrow rfl rfl
      simp only at hge
      rcases (mem_addA h0 P r1).1 hr1 with h | ⟨_, h⟩
      · have := hlt r1 h; omega
      · rw [h1, h2, hop] at h
        show op ≠ .delete
        rw [Option.some.inj h]; exact h3

/-- the five clauses of C10 on lists: `A0` the old rows, `T` newer than all of them, `N` the new
transaction ids (at most `T`, and `T` itself if any statement was issued) -/
theorem c10_core (cfg : Cfg) (evs : List Ev) (A0 : List ARow) (links0 : List Link) (T : Nat)
    (N : List Nat) (hlt : ∀ r ∈ A0, r.tx < T) (hinv : LinkInv A0 links0)
    (hN : ∀ n ∈ N, n = T) (hP : stmts cfg evs ≠ [] → T ∈ N) :
    LinkInv (addA A0 T (stmts cfg evs)) (applyAssoc cfg links0 evs) ∧
    (∀ r ∈ A0, r ∈ addA A0 T (stmts cfg evs)) ∧
    (∀ r ∈ addA A0 T (stmts cfg evs), r.tx ∈ N →
        some r.op = lastTouch cfg evs (r.tbl, r.link)) ∧
    (((addA A0 T (stmts cfg evs)).filter (fun r => decide (r.tx ∈ N))).map
        (fun r => (r.tbl, r.link))).Nodup ∧
    (∀ x ∈ touchedLinks cfg evs, ∃ r ∈ addA A0 T (stmts cfg evs),
        r.tbl = x.1 ∧ r.link = x.2 ∧ r.tx ∈ N) := by
  have h0 : ∀ r ∈ A0, r.tx ≠ T := fun r hr => Nat.ne_of_lt (hlt r hr)
  refine ⟨?_, ?_, ?_, ?_, ?_⟩
  · exact linkInv_addA _ hlt hinv (fun x => mem_applyAssoc cfg links0 evs x)
  · intro r hr; exact (mem_addA h0 _ r).2 (Or.inl hr)
  · intro r hr hn
    rw [lastTouch_eq]
    rcases (mem_addA h0 _ r).1 hr with h | ⟨_, h⟩
    · exact absurd (hN _ hn) (h0 r h)
    · exact h.symm
  · have hbase : ((A0.filter (fun r => decide (r.tx = T))).map (fun r => ((r.tbl, r.link) : Link))).Nodup := by
      have : A0.filter (fun r => decide (r.tx = T)) = [] := by
        rw [List.filter_eq_nil_iff]
        intro r hr
        simp only [decide_eq_true_eq]
        exact h0 r hr
      rw [this]; exact List.nodup_nil
    refine List.Nodup.sublist ?_ (nodup_addA (stmts cfg evs) hbase)
    apply List.Sublist.map
    apply filter_sublist_of_imp
    intro r hr
    simp only [decide_eq_true_eq] at hr ⊢
    exact hN _ hr
  · intro x hx
    rw [touchedLinks_eq] at hx
    obtain ⟨op, hop⟩ := lastOp_isSome_of_mem _ x hx
    have hne : stmts cfg evs ≠ [] := by
      intro h; rw [h] at hx; cases hx
    exact ⟨⟨x.1, x.2, T, op⟩, (mem_addA h0 _ _).2 (Or.inr ⟨rfl, hop⟩), rfl, rfl, hP hne⟩

/-! ## the state machine -/

/-- Along the events `pre` of one database transaction started in `s0`: the statements so far are
those already written (`flushed`) followed by the pending ones, nothing is written before the
transaction record exists, and the table is the old rows plus the coalesced `flushed` ones. -/
def LinkSt (cfg : Cfg) (s0 : St) (pre : List Ev) (st : St) : Prop :=
  ∃ flushed : List Stmt, flushed ++ st.uowD.pending = stmts cfg pre ∧
    (st.uowD.cur = none → flushed = []) ∧
    st.db.assoc = addA s0.db.assoc (st.uowD.cur.getD 0) flushed

theorem linkSt_init (cfg : Cfg) (s : St) (hu : s.uow = none) : LinkSt cfg s [] s := by
  refine ⟨[], ?_, fun _ => rfl, rfl⟩
  show [] ++ (s.uow.getD {}).pending = []
  rw [hu]; rfl

theorem linkSt_frame {cfg : Cfg} {s0 st : St} {pre : List Ev} (h : LinkSt cfg s0 pre st) (e : Ev)
    (st' : St) (he : stmtsOf cfg e = [])
    (hp : st'.uowD.pending = st.uowD.pending) (ha : st'.db.assoc = st.db.assoc)
    (hc : st'.uowD.cur = st.uowD.cur ∨ st.uowD.cur = none) : LinkSt cfg s0 (pre ++ [e]) st' := by
  obtain ⟨fl, h1, h2, h3⟩ := h
  refine ⟨fl, ?_, ?_, ?_⟩
  · rw [hp, stmts_snoc, he, List.append_nil]; exact h1
  · intro hn
    rcases hc with hc | hc
    · exact h2 (hc ▸ hn)
    · exact h2 hc
  · rw [ha, h3]
    rcases hc with hc | hc
    · rw [hc]
    · rw [h2 hc]; rfl

theorem step_afterFlush_pending {cfg : Cfg} {s : St} {T : Nat} (h : s.uowD.cur = some T) :
    (step cfg s .afterFlush).uowD.pending = [] := by
  have h' : ({ s with uow := some s.uowD } : St).uowD.cur = some T := h
  simp only [step]
  rw [h']
  rfl

theorem linkSt_step (cfg : Cfg) (s0 st : St) (pre : List Ev) (e : Ev) (h : LinkSt cfg s0 pre st)
    (hok : EvOK cfg st e) (hne : e.isEnd = false) :
    LinkSt cfg s0 (pre ++ [e]) (step cfg st e) := by
  cases e with
  | beforeFlush objs newId pm =>
    simp only [step]
    split
    · exact linkSt_frame h _ _ rfl rfl rfl (Or.inl rfl)
    · split
      · exact linkSt_frame h _ _ rfl rfl rfl (Or.inl rfl)
      · rename_i hmod hsome
        have hcur : st.uowD.cur = none := by
          have : ({ st with uow := some st.uowD } : St).uowD.cur = st.uowD.cur := rfl
          rw [this] at hsome
          cases hc : st.uowD.cur with
          | none => rfl
          | some T => rw [hc] at hsome; simp at hsome
        exact linkSt_frame h _ _ rfl rfl rfl (Or.inr hcur)
  | manualTx newId =>
    simp only [EvOK] at hok
    simp only [step]
    exact linkSt_frame h _ _ rfl rfl rfl (Or.inr hok.1)
  | ins cls pk vals changed =>
    simp only [step]
    split
    · exact linkSt_frame h _ _ rfl rfl rfl (Or.inl rfl)
    · exact linkSt_frame h _ _ rfl rfl rfl (Or.inl rfl)
  | upd cls pk vals cc rc kc kr =>
    simp only [step]
    split
    · exact linkSt_frame h _ _ rfl rfl rfl (Or.inl rfl)
    · split
      · exact linkSt_frame h _ _ rfl rfl rfl (Or.inl rfl)
      · split
        · exact linkSt_frame h _ _ rfl rfl rfl (Or.inl rfl)
        · exact linkSt_frame h _ _ rfl rfl rfl (Or.inl rfl)
  | del cls pk vals =>
    simp only [step]
    split
    · exact linkSt_frame h _ _ rfl rfl rfl (Or.inl rfl)
    · exact linkSt_frame h _ _ rfl rfl rfl (Or.inl rfl)
  | assoc tbl op links =>
    simp only [step]
    split
    · rename_i hc
      have hf : cfg.assocTables.contains tbl = false := by
        cases hcc : cfg.assocTables.contains tbl with
        | false => rfl
        | true => rw [hcc] at hc; simp at hc
      exact linkSt_frame h _ _ (by simp only [stmtsOf, hf]; rfl) rfl rfl (Or.inl rfl)
    · rename_i hc
      have ht : cfg.assocTables.contains tbl = true := by
        cases hcc : cfg.assocTables.contains tbl with
        | false => rw [hcc] at hc; simp at hc
        | true => rfl
      obtain ⟨fl, h1, h2, h3⟩ := h
      refine ⟨fl, ?_, h2, h3⟩
      show fl ++ (st.uowD.pending ++ links.map (fun l => (tbl, op, l))) = _
      rw [stmts_snoc, ← List.append_assoc, h1]
      simp only [stmtsOf, ht, if_true]
  | afterFlush =>
    cases hcur : st.uowD.cur with
    | none =>
      rw [step_afterFlush_none hcur]
      exact linkSt_frame h _ _ rfl rfl rfl (Or.inl rfl)
    | some T =>
      obtain ⟨_, ha, _, _, hu⟩ := step_afterFlush_some (cfg := cfg) hcur
      have hpend := step_afterFlush_pending (cfg := cfg) hcur
      obtain ⟨fl, h1, h2, h3⟩ := h
      refine ⟨fl ++ st.uowD.pending, ?_, ?_, ?_⟩
      · rw [hpend, List.append_nil, stmts_snoc]
        simp only [stmtsOf, List.append_nil]
        exact h1
      · intro hn; rw [hu] at hn; cases hn
      · rw [ha, hu, addAssoc_eq, h3, hcur]
        simp only [Option.getD_some]
        rw [addA_append]
  | commit => simp [Ev.isEnd] at hne
  | rollback => simp [Ev.isEnd] at hne
  | spBegin => exact linkSt_frame h _ _ rfl rfl rfl (Or.inl rfl)
  | spCommit => exact linkSt_frame h _ _ rfl rfl rfl (Or.inl rfl)
  | spRollback => exact absurd hok (by simp [EvOK])

theorem linkSt_run (cfg : Cfg) (s : St) (evs : List Ev) (hu : s.uow = none) (hwf : WF cfg s evs)
    (hne : ∀ e ∈ evs, e.isEnd = false) : LinkSt cfg s evs (run cfg s evs) := by
  induction evs using list_snoc_induct with
  | h0 => exact linkSt_init cfg s hu
  | h1 evs e ih =>
    obtain ⟨hwf1, hwf2⟩ := (wf_append cfg s evs [e]).1 hwf
    rw [run_append]
    exact linkSt_step cfg s _ evs e
      (ih hwf1 (fun e he => hne e (List.mem_append.2 (Or.inl he)))) hwf2.1
      (hne e (List.mem_append.2 (Or.inr (List.mem_singleton.2 rfl))))

/-- the association-version table at the commit of the transaction `evs` started in boundary
state `s`: the old rows, all older than some `T`, plus the coalesced statements stamped `T`; the
new transaction ids are at most `T`, and `T` itself if any statement was issued -/
theorem c10_end_state (cfg : Cfg) (s : St) (evs : List Ev) (hb : Boundary s) (hinv : Inv cfg s)
    (hne : ∀ e ∈ evs, e.isEnd = false) (hwf : WF cfg s (evs ++ [.commit])) :
    ∃ T, (∀ r ∈ s.db.assoc, r.tx < T) ∧
      (∀ n ∈ newIds (modelSeg cfg s evs .commit), n = T) ∧
      (stmts cfg evs ≠ [] → T ∈ newIds (modelSeg cfg s evs .commit)) ∧
      (run cfg s evs).db.assoc = addA s.db.assoc T (stmts cfg evs) := by
  obtain ⟨huow, _, _, _, hbt, _, _⟩ := hb
  obtain ⟨hwf1, hwf2⟩ := (wf_append cfg s evs [.commit]).1 hwf
  have hok : EvOK cfg (run cfg s evs) .commit := hwf2.1
  have hpend : (run cfg s evs).uowD.pending = [] := hok.2
  have h1 : Inv cfg (run cfg s evs) := inv_run cfg s evs hinv hwf1
  have hcm : (run cfg s evs).committed = s.committed := run_committed hne
  have hmem : ∀ n, n ∈ newIds (modelSeg cfg s evs .commit) ↔
      n ∈ (run cfg s evs).db.txs ∧ n ∉ (run cfg s evs).committed.txs := by
    intro n
    have : newIds (modelSeg cfg s evs .commit) =
        (run cfg s evs).db.txs.filter (fun x => !s.db.txs.contains x) := rfl
    rw [this, hcm, hbt]; simp
  obtain ⟨fl, hf1, hf2, hf3⟩ := linkSt_run cfg s evs huow hwf1 hne
  rw [hpend, List.append_nil] at hf1
  subst hf1
  cases hcur : (run cfg s evs).uowD.cur with
  | none =>
    have hnil := hf2 hcur
    refine ⟨maxATx s.db.assoc + 1, ?_, ?_, ?_, ?_⟩
    · intro r hr; have := le_maxATx _ r hr; omega
    · intro n hn
      have := h1.fresh n ((hmem n).1 hn).1 ((hmem n).1 hn).2
      rw [hcur] at this; cases this
    · intro hne'; exact absurd hnil hne'
    · rw [hf3, hnil]; rfl
  | some T =>
    refine ⟨T, ?_, ?_, ?_, ?_⟩
    · intro r hr
      have hx : r.tx ∈ (run cfg s evs).committed.txs := by
        rw [hcm, ← hbt]; exact hinv.db.atxs_in r hr
      exact committed_lt_cur h1 hx hcur
    · intro n hn
      have := h1.fresh n ((hmem n).1 hn).1 ((hmem n).1 hn).2
      rw [hcur] at this
      exact (Option.some.inj this).symm
    · intro _
      exact (hmem T).2 ⟨(h1.cur_in T hcur).1, (h1.cur_in T hcur).2.2⟩
    · rw [hf3, hcur]; rfl

/-- continuum's own writes raise nothing: the error flag never changes -/
theorem step_err (cfg : Cfg) (s : St) (e : Ev) : (step cfg s e).err = s.err := by
  cases e with
  | afterFlush =>
    cases hcur : s.uowD.cur with
    | none => rw [step_afterFlush_none hcur]
    | some T =>
      have h' : ({ s with uow := some s.uowD } : St).uowD.cur = some T := hcur
      simp only [step]
      rw [h']
      show (s.err || (addAssoc s.db.assoc T s.uowD.pending).2) = s.err
      rw [addAssoc_eq]
      simp
  | _ => simp only [step, createTx] <;> (repeat' split) <;> rfl

theorem run_err (cfg : Cfg) (s : St) (evs : List Ev) : (run cfg s evs).err = s.err := by
  induction evs generalizing s with
  | nil => rfl
  | cons e es ih => rw [run_cons, ih, step_err]

end Continuum
