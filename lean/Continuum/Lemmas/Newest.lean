import Continuum.Spec.Uow
import Continuum.Lemmas.Chain
import Continuum.Lemmas.AsOf

/-!
# The newest row of a key under one write and under a sequence of writes

Generic (any key type) lemmas about `upsert` / `closePrev` / `writeVersion` / `writeVersionSub`
seen through "the data (operation, values) of the newest row of key `k`", then lifted to folds of
writes, then connected to `writeTable` / `processOp` / `processOps` of the unit-of-work model.
-/

namespace Continuum

section generic
variable {K : Type} [DecidableEq K]

/-- the largest id among the rows of `k` -/
def maxTx (t : VTable K) (k : K) : Option Nat := ((t.filter (fun r => r.key = k)).map (·.tx)).max?

/-- (operation, values) of the first row `(k, m)` -/
def fd (t : VTable K) (k : K) (m : Nat) : Option (Op × List Val) :=
  (t.find? (fun r => r.key = k ∧ r.tx = m)).map (fun r => (r.op, r.vals))

/-- (operation, values) of the newest row of `k` -/
def ndata (t : VTable K) (k : K) : Option (Op × List Val) := (maxTx t k).bind (fd t k)

theorem maxTx_eq_some {t : VTable K} {k : K} {n : Nat} :
    maxTx t k = some n ↔ Has t k n ∧ ∀ r ∈ t, r.key = k → r.tx ≤ n := by
  unfold maxTx Has
  rw [List.max?_eq_some_iff]
  simp only [List.mem_map, List.mem_filter, decide_eq_true_eq]
  constructor
  · rintro ⟨⟨r, ⟨hr, hk⟩, rfl⟩, hmax⟩
    exact ⟨⟨r, hr, hk, rfl⟩, fun r' hr' hk' => hmax _ ⟨r', ⟨hr', hk'⟩, rfl⟩⟩
  · rintro ⟨⟨r, hr, hk, rfl⟩, hmax⟩
    exact ⟨⟨r, ⟨hr, hk⟩, rfl⟩, by rintro b ⟨r', ⟨hr', hk'⟩, rfl⟩; exact hmax r' hr' hk'⟩

theorem maxTx_eq_none {t : VTable K} {k : K} :
    maxTx t k = none ↔ ∀ r ∈ t, r.key ≠ k := by
  unfold maxTx
  simp [List.filter_eq_nil_iff]

theorem maxTx_congr {t t' : VTable K} {k : K} (h : ∀ n, Has t k n ↔ Has t' k n) :
    maxTx t' k = maxTx t k := by
  cases hn : maxTx t k with
  | none =>
    rw [maxTx_eq_none] at hn ⊢
    intro r hr hk
    obtain ⟨r', hr', hk', _⟩ := (h r.tx).2 ⟨r, hr, hk, rfl⟩
    exact hn r' hr' hk'
  | some n =>
    rw [maxTx_eq_some] at hn ⊢
    obtain ⟨hex, hmax⟩ := hn
    refine ⟨(h n).1 hex, ?_⟩
    intro r hr hk
    obtain ⟨r', hr', hk', htx'⟩ := (h r.tx).2 ⟨r, hr, hk, rfl⟩
    have := hmax r' hr' hk'
    omega

theorem ndata_congr {t t' : VTable K} {k : K} (h : ∀ n, Has t k n ↔ Has t' k n)
    (hd : ∀ m, fd t' k m = fd t k m) : ndata t' k = ndata t k := by
  unfold ndata
  rw [maxTx_congr h]
  cases maxTx t k with
  | none => rfl
  | some m => simp only [Option.bind_some]; exact hd m

theorem fd_mem {t : VTable K} {k : K} {m : Nat} {d : Op × List Val} (h : fd t k m = some d) :
    ∃ r ∈ t, r.key = k ∧ r.tx = m ∧ (r.op, r.vals) = d := by
  unfold fd at h
  cases hf : t.find? (fun r => r.key = k ∧ r.tx = m) with
  | none => rw [hf] at h; cases h
  | some r =>
    rw [hf] at h
    have hmem := List.mem_of_find?_eq_some hf
    have hp := List.find?_some hf
    simp only [decide_eq_true_eq] at hp
    simp only [Option.map_some, Option.some.injEq] at h
    exact ⟨r, hmem, hp.1, hp.2, h⟩

theorem fd_closePrev (u : VTable K) (k : K) (T : Nat) (k' : K) (m : Nat) :
    fd (closePrev u k T) k' m = fd u k' m := by
  unfold fd closePrev
  split
  · rfl
  · apply find_data_map
    · intro r; split <;> simp
    · intro r _ _; split <;> simp

theorem fd_upsert_ne {t : VTable K} {k : K} {T : Nat} {op : Op} {vals mods} (k' : K) (m : Nat)
    (hne : ¬ (k' = k ∧ m = T)) : fd (upsert t k T op vals mods) k' m = fd t k' m := by
  unfold fd upsert
  split
  · apply find_data_map
    · intro r; split <;> simp
    · intro r hr hm
      split
      · rename_i hc; exact absurd ⟨hr.symm.trans hc.1, hm.symm.trans hc.2⟩ hne
      · simp
  · rw [List.find?_append]
    have : ¬ (k = k' ∧ T = m) := fun h => hne ⟨h.1.symm, h.2.symm⟩
    simp [this]

theorem data_upsert {t : VTable K} {k : K} {T : Nat} {op : Op} {vals mods} :
    ∀ r ∈ upsert t k T op vals mods, r.key = k → r.tx = T → r.op = op ∧ r.vals = vals := by
  intro r hr hk ht
  unfold upsert at hr
  split at hr
  · simp only [List.mem_map] at hr
    obtain ⟨a, _, rfl⟩ := hr
    split
    · simp
    · rename_i hc
      split at hk <;> split at ht <;> simp_all
  · simp only [List.mem_append, List.mem_singleton] at hr
    rcases hr with hr | rfl
    · rename_i hany
      simp only [List.any_eq_true, decide_eq_true_eq, not_exists, not_and] at hany
      exact absurd ht (hany r hr hk)
    · simp

theorem fd_of_has {t : VTable K} {k : K} {m : Nat} {d : Op × List Val} (hex : Has t k m)
    (hall : ∀ r ∈ t, r.key = k → r.tx = m → (r.op, r.vals) = d) : fd t k m = some d := by
  unfold fd
  cases hf : t.find? (fun r => r.key = k ∧ r.tx = m) with
  | none =>
    rw [List.find?_eq_none] at hf
    obtain ⟨r, hr, h1, h2⟩ := hex
    exact absurd (by simp [h1, h2]) (hf r hr)
  | some r =>
    have hmem := List.mem_of_find?_eq_some hf
    have hp := List.find?_some hf
    simp only [decide_eq_true_eq] at hp
    simp only [Option.map_some, Option.some.injEq]
    exact hall r hmem hp.1 hp.2

theorem row_closePrev {u : VTable K} {k : K} {T : Nat} :
    ∀ r ∈ closePrev u k T, ∃ a ∈ u, a.key = r.key ∧ a.tx = r.tx ∧ a.op = r.op ∧ a.vals = r.vals := by
  intro r hr
  unfold closePrev at hr
  split at hr
  · exact ⟨r, hr, rfl, rfl, rfl, rfl⟩
  · simp only [List.mem_map] at hr
    obtain ⟨a, ha, rfl⟩ := hr
    refine ⟨a, ha, ?_⟩
    split <;> simp

theorem row_upsert_ne {t : VTable K} {k : K} {T : Nat} {op : Op} {vals mods} :
    ∀ r ∈ upsert t k T op vals mods, r.key ≠ k →
      ∃ a ∈ t, a.key = r.key ∧ a.tx = r.tx ∧ a.op = r.op ∧ a.vals = r.vals := by
  intro r hr hk
  unfold upsert at hr
  split at hr
  · simp only [List.mem_map] at hr
    obtain ⟨a, ha, rfl⟩ := hr
    refine ⟨a, ha, ?_⟩
    split
    · rename_i hc
      simp only [hc, and_self, ↓reduceIte] at hk
      exact absurd rfl hk
    · simp
  · simp only [List.mem_append, List.mem_singleton] at hr
    rcases hr with hr | rfl
    · exact ⟨r, hr, rfl, rfl, rfl, rfl⟩
    · exact absurd rfl hk

/-! ## one abstract write -/

structure Wr (K : Type) where
  key : K
  op : Op
  vals : List Val
  mods : List Bool

def wr (st : Strategy) (t : VTable K) (T : Nat) (w : Wr K) : VTable K :=
  match st with
  | .validity => writeVersion t w.key T w.op w.vals w.mods
  | .subquery => writeVersionSub t w.key T w.op w.vals w.mods

theorem has_wr (st : Strategy) (t : VTable K) (T : Nat) (w : Wr K) (k : K) (n : Nat) :
    Has (wr st t T w) k n ↔ Has t k n ∨ (k = w.key ∧ n = T) := by
  cases st
  · simp only [wr, writeVersion]; rw [has_closePrev, has_upsert]
  · simp only [wr, writeVersionSub]; rw [has_upsert]

theorem bounded_wr {st : Strategy} {t : VTable K} {T : Nat} {w : Wr K} (hb : Bounded t T) :
    Bounded (wr st t T w) T := by
  intro r hr
  have : Has (wr st t T w) r.key r.tx := ⟨r, hr, rfl, rfl⟩
  rw [has_wr] at this
  rcases this with ⟨r0, hr0, _, h⟩ | ⟨_, h⟩
  · have := hb r0 hr0; omega
  · omega

theorem fd_wr_ne (st : Strategy) (t : VTable K) (T : Nat) (w : Wr K) (k' : K) (m : Nat)
    (hne : ¬ (k' = w.key ∧ m = T)) : fd (wr st t T w) k' m = fd t k' m := by
  cases st
  · simp only [wr, writeVersion]; rw [fd_closePrev, fd_upsert_ne _ _ hne]
  · simp only [wr, writeVersionSub]; rw [fd_upsert_ne _ _ hne]

theorem row_wr_eq (st : Strategy) (t : VTable K) (T : Nat) (w : Wr K) :
    ∀ r ∈ wr st t T w, r.key = w.key → r.tx = T → r.op = w.op ∧ r.vals = w.vals := by
  cases st
  · simp only [wr]; exact data_of_written
  · simp only [wr, writeVersionSub]; exact data_upsert

theorem row_wr_ne (st : Strategy) (t : VTable K) (T : Nat) (w : Wr K) :
    ∀ r ∈ wr st t T w, r.key ≠ w.key →
      ∃ a ∈ t, a.key = r.key ∧ a.tx = r.tx ∧ a.op = r.op ∧ a.vals = r.vals := by
  cases st
  · simp only [wr, writeVersion]
    intro r hr hk
    obtain ⟨a, ha, h1, h2, h3, h4⟩ := row_closePrev r hr
    obtain ⟨b, hb, g1, g2, g3, g4⟩ := row_upsert_ne a ha (by rw [h1]; exact hk)
    exact ⟨b, hb, g1.trans h1, g2.trans h2, g3.trans h3, g4.trans h4⟩
  · simp only [wr, writeVersionSub]; exact row_upsert_ne

theorem fd_wr_eq (st : Strategy) (t : VTable K) (T : Nat) (w : Wr K) :
    fd (wr st t T w) w.key T = some (w.op, w.vals) := by
  apply fd_of_has
  · rw [has_wr]; exact Or.inr ⟨rfl, rfl⟩
  · intro r hr hk ht
    have := row_wr_eq st t T w r hr hk ht
    rw [this.1, this.2]

theorem ndata_wr_ne (st : Strategy) (t : VTable K) (T : Nat) (w : Wr K) (k' : K)
    (hne : k' ≠ w.key) : ndata (wr st t T w) k' = ndata t k' := by
  apply ndata_congr
  · intro n; rw [has_wr]
    constructor
    · exact Or.inl
    · rintro (h | ⟨h, _⟩); exact h; exact absurd h hne
  · intro m; exact fd_wr_ne st t T w k' m (fun h => hne h.1)

theorem ndata_wr_eq (st : Strategy) (t : VTable K) (T : Nat) (w : Wr K) (hb : Bounded t T) :
    ndata (wr st t T w) w.key = some (w.op, w.vals) := by
  unfold ndata
  have : maxTx (wr st t T w) w.key = some T := by
    rw [maxTx_eq_some]
    refine ⟨?_, ?_⟩
    · rw [has_wr]; exact Or.inr ⟨rfl, rfl⟩
    · intro r hr _; exact bounded_wr hb r hr
  rw [this]
  simp only [Option.bind_some]
  exact fd_wr_eq st t T w

/-! ## a sequence of writes -/

def wrs (st : Strategy) (t : VTable K) (T : Nat) (ws : List (Wr K)) : VTable K :=
  ws.foldl (fun t w => wr st t T w) t

theorem wrs_nil (st : Strategy) (t : VTable K) (T : Nat) : wrs st t T [] = t := rfl

theorem wrs_cons (st : Strategy) (t : VTable K) (T : Nat) (w : Wr K) (ws : List (Wr K)) :
    wrs st t T (w :: ws) = wrs st (wr st t T w) T ws := rfl

theorem wrs_append (st : Strategy) (t : VTable K) (T : Nat) (a b : List (Wr K)) :
    wrs st t T (a ++ b) = wrs st (wrs st t T a) T b := by
  unfold wrs; rw [List.foldl_append]

theorem has_wrs (st : Strategy) (T : Nat) (ws : List (Wr K)) (t : VTable K) (k : K) (n : Nat) :
    Has (wrs st t T ws) k n ↔ Has t k n ∨ (n = T ∧ ∃ w ∈ ws, w.key = k) := by
  induction ws generalizing t with
  | nil => simp [wrs_nil]
  | cons w ws ih =>
    rw [wrs_cons, ih, has_wr]
    constructor
    · rintro ((h | ⟨h1, h2⟩) | ⟨h1, w', hw', h2⟩)
      · exact Or.inl h
      · exact Or.inr ⟨h2, w, List.mem_cons_self, h1.symm⟩
      · exact Or.inr ⟨h1, w', List.mem_cons_of_mem _ hw', h2⟩
    · rintro (h | ⟨h1, w', hw', h2⟩)
      · exact Or.inl (Or.inl h)
      · rcases List.mem_cons.1 hw' with rfl | hw'
        · exact Or.inl (Or.inr ⟨h2.symm, h1⟩)
        · exact Or.inr ⟨h1, w', hw', h2⟩

theorem bounded_wrs {st : Strategy} {T : Nat} (ws : List (Wr K)) {t : VTable K} (hb : Bounded t T) :
    Bounded (wrs st t T ws) T := by
  induction ws generalizing t with
  | nil => exact hb
  | cons w ws ih => rw [wrs_cons]; exact ih (bounded_wr hb)

theorem ndata_wrs_ne (st : Strategy) (T : Nat) (ws : List (Wr K)) (t : VTable K) (k : K)
    (hne : ∀ w ∈ ws, w.key ≠ k) : ndata (wrs st t T ws) k = ndata t k := by
  induction ws generalizing t with
  | nil => rfl
  | cons w ws ih =>
    rw [wrs_cons, ih _ (fun w' hw' => hne w' (List.mem_cons_of_mem _ hw'))]
    exact ndata_wr_ne st t T w k (fun h => hne w List.mem_cons_self h.symm)

theorem ndata_wrs_last (st : Strategy) (T : Nat) (l1 l2 : List (Wr K)) (w : Wr K) (t : VTable K)
    (hb : Bounded t T) (hl2 : ∀ w' ∈ l2, w'.key ≠ w.key) :
    ndata (wrs st t T (l1 ++ w :: l2)) w.key = some (w.op, w.vals) := by
  rw [wrs_append, wrs_cons, ndata_wrs_ne _ _ _ _ _ hl2]
  exact ndata_wr_eq st _ T w (bounded_wrs l1 hb)

theorem row_wrs_ne (st : Strategy) (T : Nat) (ws : List (Wr K)) (t : VTable K) (k : K)
    (hne : ∀ w ∈ ws, w.key ≠ k) :
    ∀ r ∈ wrs st t T ws, r.key = k →
      ∃ a ∈ t, a.key = r.key ∧ a.tx = r.tx ∧ a.op = r.op ∧ a.vals = r.vals := by
  induction ws generalizing t with
  | nil => intro r hr _; exact ⟨r, hr, rfl, rfl, rfl, rfl⟩
  | cons w ws ih =>
    intro r hr hk
    rw [wrs_cons] at hr
    obtain ⟨a, ha, h1, h2, h3, h4⟩ :=
      ih _ (fun w' hw' => hne w' (List.mem_cons_of_mem _ hw')) r hr hk
    have hak : a.key ≠ w.key := by
      rw [h1, hk]; exact fun h => hne w List.mem_cons_self h.symm
    obtain ⟨b, hb, g1, g2, g3, g4⟩ := row_wr_ne st t T w a ha hak
    exact ⟨b, hb, g1.trans h1, g2.trans h2, g3.trans h3, g4.trans h4⟩

theorem row_wrs_last (st : Strategy) (T : Nat) (l1 l2 : List (Wr K)) (w : Wr K) (t : VTable K)
    (hl2 : ∀ w' ∈ l2, w'.key ≠ w.key) :
    ∀ r ∈ wrs st t T (l1 ++ w :: l2), r.key = w.key → r.tx = T → r.op = w.op ∧ r.vals = w.vals := by
  intro r hr hk ht
  rw [wrs_append, wrs_cons] at hr
  obtain ⟨a, ha, h1, h2, h3, h4⟩ := row_wrs_ne st T l2 _ w.key hl2 r hr hk
  have := row_wr_eq st _ T w a ha (h1.trans hk) (h2.trans ht)
  rw [← h3, ← h4]; exact this

theorem last_split (ws : List (Wr K)) (k : K) (h : ∃ w ∈ ws, w.key = k) :
    ∃ l1 w l2, ws = l1 ++ w :: l2 ∧ w.key = k ∧ ∀ w' ∈ l2, w'.key ≠ k := by
  induction ws with
  | nil => obtain ⟨w, hw, _⟩ := h; cases hw
  | cons a ws ih =>
    by_cases h' : ∃ w ∈ ws, w.key = k
    · obtain ⟨l1, w, l2, e, hk, hl2⟩ := ih h'
      exact ⟨a :: l1, w, l2, by rw [e]; rfl, hk, hl2⟩
    · obtain ⟨w, hw, hk⟩ := h
      rcases List.mem_cons.1 hw with rfl | hw
      · exact ⟨[], w, ws, rfl, hk, fun w' hw' h2 => h' ⟨w', hw', h2⟩⟩
      · exact absurd ⟨w, hw, hk⟩ h'

end generic

/-! ## connection with the unit-of-work model -/

/-- the values `writeTable` stores -/
def wvals (cfg : Cfg) (e : OpEntry) (tc : Nat × List (Option Nat)) : List Val :=
  if cfg.nullDelete && e.op = .delete then nullVals cfg tc.1 tc.2 e.vals else tableVals tc.2 e.vals

def mkW (cfg : Cfg) (e : OpEntry) (tc : Nat × List (Option Nat)) : Wr TKey :=
  { key := (tc.1, e.pk), op := e.op, vals := wvals cfg e tc,
    mods := if cfg.modTracker then tableFlags tc.2 e.changed (e.op = .delete) else [] }

def opWrites (cfg : Cfg) (e : OpEntry) : List (Wr TKey) := (cfg.cls e.cls).tables.map (mkW cfg e)

def allWrites (cfg : Cfg) (ops : List OpEntry) : List (Wr TKey) :=
  ops.flatMap (fun e => if e.processed then [] else opWrites cfg e)

theorem writeTable_eq (cfg : Cfg) (t : VTable TKey) (T : Nat) (e : OpEntry)
    (tc : Nat × List (Option Nat)) : writeTable cfg t T e tc = wr cfg.strategy t T (mkW cfg e tc) := by
  unfold writeTable wr mkW wvals
  cases cfg.strategy <;> rfl

theorem processOp_eq (cfg : Cfg) (t : VTable TKey) (T : Nat) (e : OpEntry) :
    processOp cfg t T e = wrs cfg.strategy t T (opWrites cfg e) := by
  have h : (fun t tc => writeTable cfg t T e tc)
      = fun t tc => wr cfg.strategy t T (mkW cfg e tc) := by
    funext t tc; exact writeTable_eq cfg t T e tc
  unfold processOp wrs opWrites
  rw [List.foldl_map, h]

theorem processOps_eq (cfg : Cfg) (T : Nat) (ops : List OpEntry) (t : VTable TKey) :
    processOps cfg t T ops = wrs cfg.strategy t T (allWrites cfg ops) := by
  induction ops generalizing t with
  | nil => rfl
  | cons e ops ih =>
    have h1 : processOps cfg t T (e :: ops)
        = processOps cfg (if e.processed then t else processOp cfg t T e) T ops := rfl
    have h2 : allWrites cfg (e :: ops)
        = (if e.processed then [] else opWrites cfg e) ++ allWrites cfg ops := by
      unfold allWrites; rw [List.flatMap_cons]
    rw [h1, h2, ih, wrs_append]
    cases e.processed
    · simp [processOp_eq]
    · simp [wrs_nil]

theorem mem_allWrites {cfg : Cfg} {ops : List OpEntry} {w : Wr TKey} :
    w ∈ allWrites cfg ops ↔
      ∃ e ∈ ops, e.processed = false ∧ ∃ tc ∈ (cfg.cls e.cls).tables, w = mkW cfg e tc := by
  unfold allWrites opWrites
  simp only [List.mem_flatMap]
  constructor
  · rintro ⟨e, he, hw⟩
    cases hp : e.processed
    · rw [hp] at hw
      simp only [Bool.false_eq_true, ↓reduceIte, List.mem_map] at hw
      obtain ⟨tc, htc, rfl⟩ := hw
      exact ⟨e, he, hp, tc, htc, rfl⟩
    · rw [hp] at hw; simp at hw
  · rintro ⟨e, he, hp, tc, htc, rfl⟩
    refine ⟨e, he, ?_⟩
    rw [hp]
    simp only [Bool.false_eq_true, ↓reduceIte, List.mem_map]
    exact ⟨tc, htc, rfl⟩

/-- `newest` seen through `ndata` -/
theorem newest_data (t : VTable TKey) (k : TKey) :
    (newest t k).map (fun r => (r.op, r.vals)) = ndata t k := by
  unfold newest ndata maxTx fd rowAt
  cases h : ((t.filter (fun r => r.key = k)).map (·.tx)).max?
  all_goals rfl

theorem newest_mem {t : VTable TKey} {k : TKey} {r : VRow TKey} (h : newest t k = some r) :
    r ∈ t ∧ r.key = k := by
  unfold newest at h
  split at h
  · cases h
  · unfold rowAt at h
    have hmem := List.mem_of_find?_eq_some h
    have hp := List.find?_some h
    simp only [decide_eq_true_eq] at hp
    exact ⟨hmem, hp.1⟩

end Continuum
