import Continuum.Trigger
import Continuum.Lemmas.Chain

/-!
# Helper lemmas for C14 (trigger program vs. object path)
Core Lean only.
-/

namespace Continuum.Trigger

open Continuum

/-! ## generic list facts -/

theorem range_filterMap_getElem? {α : Type} (l : List α) :
    (List.range l.length).filterMap (fun i => l[i]?) = l := by
  induction l with
  | nil => simp
  | cons a l ih =>
    rw [List.length_cons, List.range_succ_eq_map, List.filterMap_cons]
    simp only [List.getElem?_cons_zero, List.filterMap_map]
    congr 1

theorem range_map_getD (l : List Val) :
    (List.range l.length).map (fun j => (l[j]?).getD none) = l := by
  apply List.ext_getElem
  · simp
  · intro i h1 h2
    simp [h2]

theorem range_map_const {α β : Type} (l : List α) (b : β) :
    (List.range l.length).map (fun _ => b) = l.map (fun _ => b) := by
  apply List.ext_getElem
  · simp
  · intro i h1 h2
    simp

/-! ## the validity UPDATE -/

theorem runValidity_skeleton (t : VTable (List Int)) (T : Nat) (e : RowEv) (v : ValidityUpd) :
    ∀ r ∈ runValidity t T e v, ∃ a ∈ t, a.key = r.key ∧ a.tx = r.tx := by
  intro r hr
  unfold runValidity at hr
  simp only at hr
  split at hr
  · exact ⟨r, hr, rfl, rfl⟩
  · simp only [List.mem_map] at hr
    obtain ⟨a, ha, rfl⟩ := hr
    refine ⟨a, ha, ?_⟩
    split <;> simp

theorem opens_min_eq_prevTx {t : VTable (List Int)} {k : List Int} {T : Nat}
    (hc : Chain t) (hlt : ∀ r ∈ t, r.key = k → r.tx < T) :
    ((t.filter (fun r => r.key = k ∧ r.endTx = none)).map (·.tx)).min? = prevTx t k T := by
  cases hp : prevTx t k T with
  | none =>
    rw [prevTx_eq_none] at hp
    have : t.filter (fun r => r.key = k ∧ r.endTx = none) = [] := by
      rw [List.filter_eq_nil_iff]
      intro r hr
      simp only [decide_eq_true_eq]
      rintro ⟨hk, _⟩
      exact hp r hr hk (hlt r hr hk)
    rw [this]; rfl
  | some n =>
    rw [prevTx_eq_some] at hp
    obtain ⟨⟨r, hr, hk, hn⟩, hnT, hmax⟩ := hp
    rw [List.min?_eq_some_iff]
    simp only [List.mem_map, List.mem_filter, decide_eq_true_eq]
    refine ⟨⟨r, ⟨hr, hk, ?_⟩, hn⟩, ?_⟩
    · rw [hc r hr, nextTx_eq_none]
      intro r' hr' hk' hlt'
      rw [hk] at hk'
      have := hmax r' hr' hk' (hlt r' hr' hk')
      omega
    · rintro b ⟨r', ⟨hr', hk', he'⟩, rfl⟩
      rw [hc r' hr', nextTx_eq_none] at he'
      have := he' r hr (by rw [hk, hk'])
      omega

theorem runValidity_eq_closePrev {t : VTable (List Int)} {T : Nat} (e : RowEv) (v : ValidityUpd)
    (hc : Chain t) (hlt : ∀ r ∈ t, r.key = imgKey e v.side → r.tx < T) :
    runValidity t T e v = closePrev t (imgKey e v.side) T := by
  unfold runValidity closePrev
  simp only
  rw [opens_min_eq_prevTx hc hlt]
  cases prevTx t (imgKey e v.side) T <;> rfl

theorem prevTx_append_new {t : VTable (List Int)} {k : List Int} {T : Nat} (r : VRow (List Int))
    (hr : r.tx = T) : prevTx (t ++ [r]) k T = prevTx t k T := by
  unfold prevTx txsBelow
  simp [List.filter_append, hr]

theorem closePrev_append_new {t : VTable (List Int)} {k : List Int} {T : Nat} (r : VRow (List Int))
    (hr : r.tx = T) : closePrev (t ++ [r]) k T = closePrev t k T ++ [r] := by
  unfold closePrev
  rw [prevTx_append_new r hr]
  cases hp : prevTx t k T with
  | none => rfl
  | some n =>
    simp only [List.map_append, List.map_cons, List.map_nil]
    rw [prevTx_eq_some] at hp
    have : ¬ (r.key = k ∧ r.tx = n) := by
      rintro ⟨_, h⟩; omega
    rw [if_neg this]

/-! ## the upsert, INSERT branch -/

theorem upsert_insert {t : VTable (List Int)} {k : List Int} {T : Nat} {op : Op} {vals mods}
    (hfirst : ∀ r ∈ t, r.key = k → r.tx ≠ T) :
    upsert t k T op vals mods =
      t ++ [{ key := k, tx := T, endTx := none, op := op, vals := vals, mods := mods }] := by
  unfold upsert
  rw [if_neg]
  simp only [List.any_eq_true, decide_eq_true_eq]
  rintro ⟨r, hr, hk, hT⟩
  exact hfirst r hr hk hT

theorem runUpsert_insert {p : TrigProg} {t : VTable (List Int)} {T : Nat} {e : RowEv} {u : Upsert}
    {s : Side} {opCode : Nat} {setOp : Option Nat} {setMods : List (Nat × TExpr)} {insMods : List TExpr}
    (hu : upsertOK p s opCode setOp u setMods insMods)
    (hk : (imgKey e s).length = p.nKeys)
    (hfirst : ∀ r ∈ t, r.key = imgKey e s → r.tx ≠ T) :
    runUpsert p t T e u =
      t ++ [{ key := imgKey e s, tx := T, endTx := none,
              op := (Op.ofCode? opCode).getD .insert,
              vals := (List.range p.nVals).map (fun j => imgVal e s j),
              mods := if p.mods then insMods.map (evalFlag e false) else [] }] := by
  obtain ⟨_, hop, hs, _, _, hik, hiv, hm1, hm0⟩ := hu
  unfold runUpsert
  simp only
  rw [hs, if_neg]
  · congr 2
    have hkey : u.insKeys.filterMap (fun x => evalVal e x) = imgKey e s := by
      rw [hik, List.filterMap_map]
      have := range_filterMap_getElem? (imgKey e s)
      rw [hk] at this
      simpa [Function.comp_def, evalVal] using this
    have hvals : u.insVals.map (evalVal e) = (List.range p.nVals).map (fun j => imgVal e s j) := by
      rw [hiv, List.map_map]; rfl
    have hmods : (if p.mods then u.insMods.map (evalFlag e false) else []) =
        (if p.mods then insMods.map (evalFlag e false) else []) := by
      cases hm : p.mods
      · simp
      · simp [(hm1 hm).2]
    rw [hkey, hvals, hmods, hop]
  · simp only [List.any_eq_true, decide_eq_true_eq]
    rintro ⟨r, hr, hk, hT⟩
    exact hfirst r hr hk hT

/-- the trigger's statements for one first-in-transaction event equal the object path's write -/
theorem trigger_eq_write {validity : Bool} {p : TrigProg} {t : VTable (List Int)} {T : Nat} {e : RowEv}
    {o : OpProg} {s : Side} {opCode : Nat} {setOp : Option Nat} {setMods : List (Nat × TExpr)}
    {insMods : List TExpr}
    (hv : validityOK p s validity o.validity)
    (hu : upsertOK p s opCode setOp o.upsert setMods insMods)
    (hk : (imgKey e s).length = p.nKeys)
    (hb : Bounded t T) (hc : validity = true → Chain t)
    (hfirst : ∀ r ∈ t, r.key = imgKey e s → r.tx ≠ T) :
    runUpsert p (o.validity.foldl (fun t v => runValidity t T e v) t) T e o.upsert =
      if validity then
        writeVersion t (imgKey e s) T ((Op.ofCode? opCode).getD .insert)
          ((List.range p.nVals).map (fun j => imgVal e s j))
          (if p.mods then insMods.map (evalFlag e false) else [])
      else
        writeVersionSub t (imgKey e s) T ((Op.ofCode? opCode).getD .insert)
          ((List.range p.nVals).map (fun j => imgVal e s j))
          (if p.mods then insMods.map (evalFlag e false) else []) := by
  unfold validityOK at hv
  cases validity with
  | false =>
    simp only [Bool.false_eq_true, if_false] at hv ⊢
    rw [hv, List.foldl_nil, runUpsert_insert hu hk hfirst]
    unfold writeVersionSub
    rw [upsert_insert hfirst]
  | true =>
    simp only [if_true] at hv ⊢
    rw [hv, List.foldl_cons, List.foldl_nil]
    have hfirst' : ∀ r ∈ runValidity t T e { side := s, keyCols := List.range p.nKeys },
        r.key = imgKey e s → r.tx ≠ T := by
      intro r hr hkr
      obtain ⟨a, ha, hak, hat⟩ := runValidity_skeleton t T e _ r hr
      rw [← hat]
      exact hfirst a ha (hak.trans hkr)
    rw [runUpsert_insert hu hk hfirst']
    unfold writeVersion
    rw [upsert_insert hfirst, closePrev_append_new _ rfl]
    congr 1
    apply runValidity_eq_closePrev e _ (hc rfl)
    intro r hr hkr
    have h1 := hb r hr
    have h2 := hfirst r hr hkr
    omega

end Continuum.Trigger
