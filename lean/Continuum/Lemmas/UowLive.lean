import Continuum.Lemmas.UowInvDef
import Continuum.Lemmas.Newest

/-!
# The in-transaction invariant relating ghost live rows, pending operations and version rows

Used by `Props/C01.lean`.
-/

namespace Continuum

abbrev Live := List (TKey × List Val)

/-! ## configuration side conditions -/

/-- a class lists each version table of its hierarchy once -/
def TablesNodup (cfg : Cfg) : Prop := ∀ c ∈ cfg.classes, (c.tables.map (·.1)).Nodup

/-- a column stored in a version table is one of the `ncols` mapped column attributes -/
def ColsInRange (cfg : Cfg) : Prop :=
  ∀ c ∈ cfg.classes, ∀ tc ∈ c.tables, ∀ oc ∈ tc.2, ∀ i ∈ oc.toList, i < c.ncols

instance (cfg : Cfg) : Decidable (TablesNodup cfg) := by unfold TablesNodup; infer_instance
instance (cfg : Cfg) : Decidable (ColsInRange cfg) := by unfold ColsInRange; infer_instance

theorem cls_mem {cfg : Cfg} {c : Nat} {tc : Nat × List (Option Nat)}
    (h : tc ∈ (cfg.cls c).tables) : cfg.cls c ∈ cfg.classes := by
  unfold Cfg.cls at h ⊢
  cases hc : cfg.classes[c]? with
  | none => rw [hc] at h; simp only [Option.getD_none] at h; cases h
  | some x => simp only [Option.getD_some]; exact List.mem_of_getElem? hc

theorem tables_nodup {cfg : Cfg} (h : TablesNodup cfg) (c : Nat) :
    ((cfg.cls c).tables.map (·.1)).Nodup := by
  cases ht : (cfg.cls c).tables with
  | nil => simp
  | cons tc rest =>
    rw [← ht]
    exact h _ (cls_mem (tc := tc) (by rw [ht]; exact List.mem_cons_self))

/-! ## the missing half of W2: the stored row has the shape of the class' projection -/

/-- `old` has one value per version column and NULL in every column the class does not map -/
def liveShaped (cols : List (Option Nat)) (old : List Val) : Prop :=
  old.length = cols.length ∧ ∀ j ∈ List.range cols.length, cols[j]? = some none → old[j]? = some none

instance (cols : List (Option Nat)) (old : List Val) : Decidable (liveShaped cols old) := by
  unfold liveShaped; infer_instance

def UpdShapeOK (cfg : Cfg) (s : St) : Ev → Prop
  | .upd c pk _ _ _ _ _ =>
    (cfg.cls c).versioned = true →
      ∀ tc ∈ (cfg.cls c).tables, ∀ old ∈ (liveGet s.db.live (tc.1, pk)).toList, liveShaped tc.2 old
  | _ => True

instance (cfg : Cfg) (s : St) (e : Ev) : Decidable (UpdShapeOK cfg s e) := by
  unfold UpdShapeOK; split <;> infer_instance

/-- `UpdShapeOK` along a trace, in the style of `WF` -/
def WFShape (cfg : Cfg) (s : St) : List Ev → Prop
  | [] => True
  | e :: es => UpdShapeOK cfg s e ∧ WFShape cfg (step cfg s e) es

instance wfShapeDec (cfg : Cfg) : (s : St) → (evs : List Ev) → Decidable (WFShape cfg s evs)
  | _, [] => isTrue trivial
  | s, e :: es => by
    unfold WFShape
    have := wfShapeDec cfg (step cfg s e) es
    infer_instance

theorem tableVals_getElem? (cols : List (Option Nat)) (vals : List Val) (j : Nat) :
    (tableVals cols vals)[j]? = (cols[j]?).map (fun oc => match oc with
      | none => none
      | some i => (vals[i]?).getD none) := by
  simp only [tableVals, List.getElem?_map]
  rfl

theorem tableVals_length (cols : List (Option Nat)) (vals : List Val) :
    (tableVals cols vals).length = cols.length := by
  unfold tableVals; rw [List.length_map]

theorem tableVals_eq_old {cols : List (Option Nat)} {vals : List Val} {cc : List Bool}
    {old : List Val} (hu : unchangedKept cols vals cc old) (hs : liveShaped cols old)
    (hcc : ∀ (j i : Nat), cols[j]? = some (some i) → (cc[i]?).getD false = false) :
    tableVals cols vals = old := by
  apply List.ext_getElem?
  intro j
  by_cases hj : j < cols.length
  · cases hc : cols[j]? with
    | none =>
      rw [List.getElem?_eq_none_iff] at hc; omega
    | some oc =>
      cases oc with
      | none =>
        rw [hs.2 j (List.mem_range.2 hj) hc, tableVals_getElem?, hc]
        rfl
      | some i =>
        apply hu j (List.mem_range.2 hj) i
        · rw [hc]; simp
        · exact hcc j i hc
  · have h1 : (tableVals cols vals)[j]? = none := by
      rw [List.getElem?_eq_none_iff, tableVals_length]; omega
    have h2 : old[j]? = none := by
      rw [List.getElem?_eq_none_iff, hs.1]; omega
    rw [h1, h2]

theorem untracked_cc {cfg : Cfg} (hcfg : CfgOK cfg) (hrange : ColsInRange cfg) {c : Nat}
    {cc rc kc kr : List Bool}
    (hun : (isModified (cfg.cls c) cc rc && committedNonEmpty (cfg.cls c) kc kr) = false)
    (hchg : ∀ i ∈ List.range cc.length, (cc[i]?).getD false = true → (kc[i]?).getD false = true)
    {tc : Nat × List (Option Nat)} (htc : tc ∈ (cfg.cls c).tables) {j i : Nat}
    (hj : tc.2[j]? = some (some i)) : (cc[i]?).getD false = false := by
  cases hv : (cc[i]?).getD false with
  | false => rfl
  | true =>
    exfalso
    have hcm := cls_mem htc
    have hoc : some i ∈ tc.2 := List.mem_of_getElem? hj
    have hver := hcfg _ hcm tc htc (some i) hoc i (by simp)
    have hlt := hrange _ hcm tc htc (some i) hoc i (by simp)
    have hilt : i < cc.length := by
      cases h : cc[i]? with
      | none => rw [h] at hv; simp at hv
      | some b => exact (List.getElem?_eq_some_iff.1 h).1
    have hk := hchg i (List.mem_range.2 hilt) hv
    have h1 : isModified (cfg.cls c) cc rc = true := by
      unfold isModified
      rw [Bool.or_eq_true]; left
      rw [List.any_eq_true]
      exact ⟨i, List.mem_range.2 hlt, by rw [hver, hv]; rfl⟩
    have h2 : committedNonEmpty (cfg.cls c) kc kr = true := by
      unfold committedNonEmpty
      rw [Bool.or_eq_true]; left
      rw [List.any_eq_true]
      cases h : kc[i]? with
      | none => rw [h] at hk; simp at hk
      | some b =>
        rw [h] at hk; simp only [Option.getD_some] at hk
        exact ⟨b, List.mem_of_getElem? h, by rw [hk]; rfl⟩
    rw [h1, h2] at hun
    cases hun

/-! ## ghost live rows -/

theorem liveGet_nil (k : TKey) : liveGet [] k = none := rfl

theorem liveGet_cons (p : TKey × List Val) (l : Live) (k : TKey) :
    liveGet (p :: l) k = if p.1 = k then some p.2 else liveGet l k := by
  unfold liveGet
  rw [List.find?_cons]
  by_cases h : p.1 = k <;> simp [h]

theorem liveGet_filter (l : Live) (k k' : TKey) :
    liveGet (l.filter (fun p => p.1 ≠ k)) k' = if k' = k then none else liveGet l k' := by
  induction l with
  | nil => simp [liveGet_nil]
  | cons p l ih =>
    rw [List.filter_cons]
    by_cases hp : p.1 = k
    · have : decide (p.1 ≠ k) = false := by simp [hp]
      rw [this]
      simp only [Bool.false_eq_true, ↓reduceIte]
      rw [ih, liveGet_cons]
      by_cases hk : k' = k
      · simp [hk]
      · have : ¬ p.1 = k' := fun h => hk (h.symm.trans hp)
        simp [hk, this]
    · have : decide (p.1 ≠ k) = true := by simp [hp]
      rw [this]
      simp only [↓reduceIte]
      rw [liveGet_cons, liveGet_cons, ih]
      by_cases hk : k' = k
      · simp [hk, hp]
      · simp [hk]

theorem liveGet_liveSet (l : Live) (k : TKey) (v : List Val) (k' : TKey) :
    liveGet (liveSet l k v) k' = if k' = k then some v else liveGet l k' := by
  unfold liveSet
  rw [liveGet_cons, liveGet_filter]
  by_cases hk : k' = k
  · simp [hk]
  · have : ¬ k = k' := fun h => hk h.symm
    simp [hk, this]

theorem liveGet_liveDel (l : Live) (k k' : TKey) :
    liveGet (liveDel l k) k' = if k' = k then none else liveGet l k' := by
  unfold liveDel
  exact liveGet_filter l k k'

theorem keys_filter_nodup {l : Live} (k : TKey) (h : (l.map (·.1)).Nodup) :
    ((l.filter (fun p => p.1 ≠ k)).map (·.1)).Nodup :=
  List.Nodup.sublist (List.Sublist.map _ List.filter_sublist) h

theorem nodup_liveSet {l : Live} (k : TKey) (v : List Val) (h : (l.map (·.1)).Nodup) :
    ((liveSet l k v).map (·.1)).Nodup := by
  unfold liveSet
  rw [List.map_cons, List.nodup_cons]
  refine ⟨?_, keys_filter_nodup k h⟩
  simp only [List.mem_map, List.mem_filter]
  rintro ⟨p, ⟨_, hp⟩, rfl⟩
  simp at hp

theorem nodup_liveDel {l : Live} (k : TKey) (h : (l.map (·.1)).Nodup) :
    ((liveDel l k).map (·.1)).Nodup := keys_filter_nodup k h

theorem liveGet_of_mem {l : Live} (h : (l.map (·.1)).Nodup) {p : TKey × List Val} (hp : p ∈ l) :
    liveGet l p.1 = some p.2 := by
  induction l with
  | nil => cases hp
  | cons q l ih =>
    rw [List.map_cons, List.nodup_cons] at h
    rw [liveGet_cons]
    rcases List.mem_cons.1 hp with rfl | hp
    · simp
    · have : ¬ q.1 = p.1 := fun hq => h.1 (by rw [hq]; exact List.mem_map_of_mem hp)
      simp only [this, ↓reduceIte]
      exact ih h.2 hp

theorem mem_of_liveGet {l : Live} {k : TKey} {v : List Val} (h : liveGet l k = some v) :
    (k, v) ∈ l := by
  induction l with
  | nil => cases h
  | cons q l ih =>
    rw [liveGet_cons] at h
    by_cases hq : q.1 = k
    · simp only [hq, ↓reduceIte, Option.some.injEq] at h
      have : q = (k, v) := by rw [← hq, ← h]
      rw [this]; exact List.mem_cons_self
    · simp only [hq, ↓reduceIte] at h
      exact List.mem_cons_of_mem _ (ih h)

/-- the fold of `liveWrite` over an explicit table list -/
def liveWriteL (l : Live) (tabs : List (Nat × List (Option Nat))) (pk : List Int) (vals : List Val) :
    Live :=
  tabs.foldl (fun l tc => liveSet l (tc.1, pk) (tableVals tc.2 vals)) l

def liveRemoveL (l : Live) (tabs : List (Nat × List (Option Nat))) (pk : List Int) : Live :=
  tabs.foldl (fun l tc => liveDel l (tc.1, pk)) l

theorem liveWriteL_frame (tabs : List (Nat × List (Option Nat))) (pk : List Int) (vals : List Val)
    (l : Live) (k : TKey) (h : ∀ tc ∈ tabs, k ≠ (tc.1, pk)) :
    liveGet (liveWriteL l tabs pk vals) k = liveGet l k := by
  induction tabs generalizing l with
  | nil => rfl
  | cons tc tabs ih =>
    show liveGet (liveWriteL (liveSet l (tc.1, pk) (tableVals tc.2 vals)) tabs pk vals) k = _
    rw [ih _ (fun tc' h' => h tc' (List.mem_cons_of_mem _ h')), liveGet_liveSet]
    simp [h tc List.mem_cons_self]

theorem liveWriteL_hit (tabs : List (Nat × List (Option Nat))) (pk : List Int) (vals : List Val)
    (l : Live) (hnd : (tabs.map (·.1)).Nodup) (tc : Nat × List (Option Nat)) (htc : tc ∈ tabs) :
    liveGet (liveWriteL l tabs pk vals) (tc.1, pk) = some (tableVals tc.2 vals) := by
  induction tabs generalizing l with
  | nil => cases htc
  | cons x tabs ih =>
    rw [List.map_cons, List.nodup_cons] at hnd
    show liveGet (liveWriteL (liveSet l (x.1, pk) (tableVals x.2 vals)) tabs pk vals) _ = _
    rcases List.mem_cons.1 htc with rfl | htc
    · rw [liveWriteL_frame, liveGet_liveSet]
      · simp
      · intro tc' h' heq
        apply hnd.1
        have : tc.1 = tc'.1 := (Prod.mk.inj heq).1
        rw [this]; exact List.mem_map_of_mem h'
    · exact ih _ hnd.2 htc

theorem liveWriteL_same (tabs : List (Nat × List (Option Nat))) (pk : List Int) (vals : List Val)
    (l : Live) (h : ∀ tc ∈ tabs, liveGet l (tc.1, pk) = some (tableVals tc.2 vals)) (l1 : Live)
    (h1 : ∀ k, liveGet l1 k = liveGet l k) :
    ∀ k, liveGet (liveWriteL l1 tabs pk vals) k = liveGet l k := by
  induction tabs generalizing l1 with
  | nil => exact h1
  | cons tc tabs ih =>
    show ∀ k, liveGet (liveWriteL (liveSet l1 (tc.1, pk) (tableVals tc.2 vals)) tabs pk vals) k = _
    apply ih (fun tc' h' => h tc' (List.mem_cons_of_mem _ h'))
    intro k
    rw [liveGet_liveSet]
    by_cases hk : k = (tc.1, pk)
    · rw [hk, h tc List.mem_cons_self]; simp
    · simp only [hk, ↓reduceIte]; exact h1 k

theorem nodup_liveWriteL (tabs : List (Nat × List (Option Nat))) (pk : List Int) (vals : List Val)
    (l : Live) (h : (l.map (·.1)).Nodup) : ((liveWriteL l tabs pk vals).map (·.1)).Nodup := by
  induction tabs generalizing l with
  | nil => exact h
  | cons tc tabs ih => exact ih _ (nodup_liveSet _ _ h)

theorem liveRemoveL_frame (tabs : List (Nat × List (Option Nat))) (pk : List Int)
    (l : Live) (k : TKey) (h : ∀ tc ∈ tabs, k ≠ (tc.1, pk)) :
    liveGet (liveRemoveL l tabs pk) k = liveGet l k := by
  induction tabs generalizing l with
  | nil => rfl
  | cons tc tabs ih =>
    show liveGet (liveRemoveL (liveDel l (tc.1, pk)) tabs pk) k = _
    rw [ih _ (fun tc' h' => h tc' (List.mem_cons_of_mem _ h')), liveGet_liveDel]
    simp [h tc List.mem_cons_self]

theorem liveRemoveL_hit' (tabs : List (Nat × List (Option Nat))) (pk : List Int)
    (l : Live) (k : TKey) (hk : ∃ tc ∈ tabs, k = (tc.1, pk)) :
    liveGet (liveRemoveL l tabs pk) k = none := by
  induction tabs generalizing l with
  | nil => obtain ⟨tc, htc, _⟩ := hk; cases htc
  | cons x tabs ih =>
    show liveGet (liveRemoveL (liveDel l (x.1, pk)) tabs pk) _ = _
    by_cases hex : ∃ tc' ∈ tabs, k = (tc'.1, pk)
    · exact ih _ hex
    · obtain ⟨tc, htc, hkk⟩ := hk
      rcases List.mem_cons.1 htc with rfl | htc
      · rw [liveRemoveL_frame, liveGet_liveDel]
        · simp [hkk]
        · intro tc' h' heq; exact hex ⟨tc', h', heq⟩
      · exact absurd ⟨tc, htc, hkk⟩ hex

theorem liveRemoveL_hit (tabs : List (Nat × List (Option Nat))) (pk : List Int)
    (l : Live) (tc : Nat × List (Option Nat)) (htc : tc ∈ tabs) :
    liveGet (liveRemoveL l tabs pk) (tc.1, pk) = none :=
  liveRemoveL_hit' tabs pk l _ ⟨tc, htc, rfl⟩

theorem nodup_liveRemoveL (tabs : List (Nat × List (Option Nat))) (pk : List Int)
    (l : Live) (h : (l.map (·.1)).Nodup) : ((liveRemoveL l tabs pk).map (·.1)).Nodup := by
  induction tabs generalizing l with
  | nil => exact h
  | cons tc tabs ih => exact ih _ (nodup_liveDel _ h)

/-! ## `Operations.add` -/

theorem mem_opsAdd {ops : List OpEntry} {e o : OpEntry} (h : o ∈ opsAdd ops e) :
    o = e ∨ (o ∈ ops ∧ ¬ (o.cls = e.cls ∧ o.pk = e.pk)) := by
  unfold opsAdd at h
  split at h
  · simp only [List.mem_map] at h
    obtain ⟨a, ha, rfl⟩ := h
    by_cases hc : a.cls = e.cls ∧ a.pk = e.pk
    · rw [if_pos hc]; exact Or.inl rfl
    · rw [if_neg hc]; exact Or.inr ⟨ha, hc⟩
  · rename_i hany
    simp only [List.any_eq_true, decide_eq_true_eq, not_exists, not_and] at hany
    simp only [List.mem_append, List.mem_singleton] at h
    rcases h with h | rfl
    · exact Or.inr ⟨h, fun hc => hany o h hc.1 hc.2⟩
    · exact Or.inl rfl

theorem mem_opsAdd_self (ops : List OpEntry) (e : OpEntry) : e ∈ opsAdd ops e := by
  unfold opsAdd
  split
  · rename_i hany
    simp only [List.any_eq_true, decide_eq_true_eq] at hany
    obtain ⟨a, ha, hc⟩ := hany
    simp only [List.mem_map]
    exact ⟨a, ha, by simp [hc]⟩
  · simp

theorem mem_opsAdd_of_ne {ops : List OpEntry} {e o : OpEntry} (h : o ∈ ops)
    (hne : ¬ (o.cls = e.cls ∧ o.pk = e.pk)) : o ∈ opsAdd ops e := by
  unfold opsAdd
  split
  · simp only [List.mem_map]
    exact ⟨o, h, by simp [hne]⟩
  · simp [h]

/-- every entity with an entry keeps one -/
theorem opsAdd_keeps {ops : List OpEntry} {e o : OpEntry} (h : o ∈ ops) :
    ∃ o' ∈ opsAdd ops e, o'.cls = o.cls ∧ o'.pk = o.pk := by
  by_cases hc : o.cls = e.cls ∧ o.pk = e.pk
  · exact ⟨e, mem_opsAdd_self ops e, hc.1.symm, hc.2.symm⟩
  · exact ⟨o, mem_opsAdd_of_ne h hc, rfl, rfl⟩

theorem pairwise_opsAdd {ops : List OpEntry} (e : OpEntry)
    (h : ops.Pairwise (fun a b => ¬ (a.cls = b.cls ∧ a.pk = b.pk))) :
    (opsAdd ops e).Pairwise (fun a b => ¬ (a.cls = b.cls ∧ a.pk = b.pk)) := by
  have hmap : (ops.map (fun o => if o.cls = e.cls ∧ o.pk = e.pk then e else o)).Pairwise
      (fun a b => ¬ (a.cls = b.cls ∧ a.pk = b.pk)) := by
    induction ops with
    | nil => exact List.Pairwise.nil
    | cons a ops ih =>
      rw [List.pairwise_cons] at h
      rw [List.map_cons, List.pairwise_cons]
      refine ⟨?_, ih h.2⟩
      intro b hb
      simp only [List.mem_map] at hb
      obtain ⟨x, hx, rfl⟩ := hb
      have hax := h.1 x hx
      by_cases ha : a.cls = e.cls ∧ a.pk = e.pk <;> by_cases hx' : x.cls = e.cls ∧ x.pk = e.pk
      · exact absurd ⟨ha.1.trans hx'.1.symm, ha.2.trans hx'.2.symm⟩ hax
      · rw [if_pos ha, if_neg hx']
        exact fun hc => hx' ⟨hc.1.symm, hc.2.symm⟩
      · rw [if_neg ha, if_pos hx']; exact ha
      · rw [if_neg ha, if_neg hx']; exact hax
  unfold opsAdd
  split
  · exact hmap
  · rename_i hany
    simp only [List.any_eq_true, decide_eq_true_eq, not_exists, not_and] at hany
    rw [List.pairwise_append]
    refine ⟨h, List.pairwise_singleton _ _, ?_⟩
    intro a ha b hb
    rw [List.mem_singleton] at hb
    subst hb
    exact fun hc => hany a ha hc.1 hc.2

theorem eq_of_pairwise {ops : List OpEntry}
    (h : ops.Pairwise (fun a b => ¬ (a.cls = b.cls ∧ a.pk = b.pk)))
    {a b : OpEntry} (ha : a ∈ ops) (hb : b ∈ ops) (hc : a.cls = b.cls) (hp : a.pk = b.pk) : a = b := by
  induction ops with
  | nil => cases ha
  | cons x ops ih =>
    rw [List.pairwise_cons] at h
    rcases List.mem_cons.1 ha with ha' | ha' <;> rcases List.mem_cons.1 hb with hb' | hb'
    · rw [ha', hb']
    · subst ha'; exact absurd ⟨hc, hp⟩ (h.1 b hb')
    · subst hb'; exact absurd ⟨hc.symm, hp.symm⟩ (h.1 a ha')
    · exact ih h.2 ha' hb'

/-! ## reading the event list -/

theorem tracked_realChange {cfg : Cfg} {e : Ev} (h : e.tracked cfg = true) : e.realChange cfg = true := by
  cases e <;> simp_all [Ev.tracked, Ev.realChange]

theorem entityEvents_snoc (cfg : Cfg) (pre : List Ev) (e : Ev) (c : Nat) (pk : List Int) :
    entityEvents cfg (pre ++ [e]) c pk =
      entityEvents cfg pre c pk ++ (if (e.tracked cfg && e.entity == some (c, pk)) then [e] else []) := by
  unfold entityEvents
  rw [List.filter_append]
  congr 1
  simp only [List.filter_cons, List.filter_nil]

theorem entityEvents_snoc_other (cfg : Cfg) (pre : List Ev) (e : Ev) (c : Nat) (pk : List Int)
    (h : ¬ (e.tracked cfg = true ∧ e.entity = some (c, pk))) :
    entityEvents cfg (pre ++ [e]) c pk = entityEvents cfg pre c pk := by
  rw [entityEvents_snoc]
  have : (e.tracked cfg && e.entity == some (c, pk)) = false := by
    cases ht : e.tracked cfg
    · rfl
    · simp only [Bool.true_and, beq_eq_false_iff_ne, ne_eq]
      exact fun he => h ⟨ht, he⟩
  rw [this]; simp

theorem entityEvents_snoc_self (cfg : Cfg) (pre : List Ev) (e : Ev) (c : Nat) (pk : List Int)
    (ht : e.tracked cfg = true) (he : e.entity = some (c, pk)) :
    (entityEvents cfg (pre ++ [e]) c pk).getLast? = some e := by
  rw [entityEvents_snoc]
  have : (e.tracked cfg && e.entity == some (c, pk)) = true := by
    rw [ht, he]; simp
  rw [this]
  simp

theorem mem_of_entityEvents_last {cfg : Cfg} {evs : List Ev} {c : Nat} {pk : List Int} {e : Ev}
    (h : (entityEvents cfg evs c pk).getLast? = some e) :
    e ∈ evs ∧ e.tracked cfg = true ∧ e.entity = some (c, pk) := by
  have hm : e ∈ entityEvents cfg evs c pk := List.mem_of_getLast? h
  unfold entityEvents at hm
  rw [List.mem_filter] at hm
  obtain ⟨h1, h2⟩ := hm
  simp only [Bool.and_eq_true, beq_iff_eq] at h2
  exact ⟨h1, h2.1, h2.2⟩

end Continuum
