import Continuum.Spec.Tables
import Continuum.Lemmas.Chain

/-!
# Helper lemmas for C15 (changesets, modification flags)

* `orFlags` / `zipFlags` arithmetic,
* `AllPairs` against a mapped copy of the same list,
* on a table with a well-formed chain the validity join condition `end_tx = v.tx` selects exactly
  the row stamped `prevTx`, hence `prevVal = prevSub` and the `LEFT JOIN` of the backfill tool
  yields at most one predecessor (`PKUnique`).
-/

namespace Continuum
variable {K : Type} [DecidableEq K]

/-! ## flags -/

theorem orFlags_false_left {α : Type} (l : List α) (fl : List Bool) (h : fl.length = l.length) :
    orFlags (l.map fun _ => false) fl = fl := by
  induction l generalizing fl with
  | nil => cases fl <;> simp [orFlags]
  | cons a l ih =>
    cases fl with
    | nil => simp at h
    | cons b fl => simp [orFlags, ih fl (by simpa using h)]

theorem orFlags_false_true {α : Type} (l : List α) :
    orFlags (l.map fun _ => false) (l.map fun _ => true) = l.map fun _ => true :=
  orFlags_false_left l _ (by simp)

@[simp] theorem zipFlags_length (ne : Val → Val → Bool) (a b : List Val) :
    (zipFlags ne a b).length = a.length := by
  simp [zipFlags]

/-! ## `AllPairs` -/

theorem allPairs_map_self {α β : Type} {P : α → β → Prop} (f : α → β) (l : List α)
    (h : ∀ a ∈ l, P a (f a)) : AllPairs P l (l.map f) := by
  refine ⟨by simp, ?_⟩
  intro p hp
  rw [List.zip_map_right] at hp
  simp only [List.mem_map] at hp
  obtain ⟨⟨a, b⟩, hab, rfl⟩ := hp
  have hmem := List.of_mem_zip hab
  have heq : a = b := by
    clear h hmem
    induction l with
    | nil => simp at hab
    | cons x l ih =>
      simp only [List.zip_cons_cons, List.mem_cons, Prod.mk.injEq] at hab
      rcases hab with ⟨rfl, rfl⟩ | hab
      · rfl
      · exact ih hab
  subst heq
  exact h a hmem.1

/-! ## filter vs. find? under uniqueness -/

theorem find?_congr_mem_mods {α : Type} {p q : α → Bool} {l : List α} (h : ∀ a ∈ l, p a = q a) :
    l.find? p = l.find? q := by
  induction l with
  | nil => rfl
  | cons a l ih =>
    simp only [List.find?_cons, h a (by simp)]
    rw [ih (fun b hb => h b (by simp [hb]))]

theorem filter_eq_find?_toList {α : Type} (P : α → Bool) (l : List α)
    (hu : l.Pairwise (fun a b => ¬ (P a = true ∧ P b = true))) :
    l.filter P = (l.find? P).toList := by
  induction l with
  | nil => rfl
  | cons a l ih =>
    rw [List.pairwise_cons] at hu
    by_cases ha : P a = true
    · rw [List.filter_cons_of_pos ha, List.find?_cons_of_pos ha]
      have : l.filter P = [] := by
        rw [List.filter_eq_nil_iff]
        intro b hb hPb
        exact hu.1 b hb ⟨ha, hPb⟩
      simp [this]
    · rw [List.filter_cons_of_neg ha, List.find?_cons_of_neg ha]
      exact ih hu.2

/-! ## the predecessor join -/

/-- On a well-formed chain, the rows joined by `end_tx = v.tx` are exactly the rows stamped with
the greatest smaller id of `v`'s key. -/
theorem endTx_eq_iff_prevTx {t : VTable K} (hc : Chain t) {v : VRow K} (hv : v ∈ t)
    {r : VRow K} (hr : r ∈ t) :
    (r.key = v.key ∧ r.endTx = some v.tx) ↔ (r.key = v.key ∧ prevTx t v.key v.tx = some r.tx) := by
  constructor
  · rintro ⟨hk, he⟩
    refine ⟨hk, ?_⟩
    rw [hc r hr, nextTx_eq_some] at he
    obtain ⟨_, hlt, hmin⟩ := he
    rw [prevTx_eq_some]
    refine ⟨⟨r, hr, hk, rfl⟩, hlt, ?_⟩
    intro r2 hr2 hk2 hx2
    by_cases h : r.tx < r2.tx
    · have := hmin r2 hr2 (hk2.trans hk.symm) h
      omega
    · omega
  · rintro ⟨hk, hp⟩
    refine ⟨hk, ?_⟩
    rw [prevTx_eq_some] at hp
    obtain ⟨_, hlt, hmax⟩ := hp
    rw [hc r hr, nextTx_eq_some]
    refine ⟨⟨v, hv, hk.symm, rfl⟩, hlt, ?_⟩
    intro r2 hr2 hk2 hx2
    by_cases h : r2.tx < v.tx
    · have := hmax r2 hr2 (hk2.trans hk) h
      omega
    · omega

/-- `prevSub` as a single `find?` -/
theorem prevSub_eq_find? (t : VTable K) (v : VRow K) :
    prevSub t v = t.find? (fun r => r.key = v.key ∧ prevTx t v.key v.tx = some r.tx) := by
  unfold prevSub
  cases h : prevTx t v.key v.tx with
  | none =>
    symm
    simp [List.find?_eq_none]
  | some n =>
    simp only [Option.bind_some, rowAt]
    apply find?_congr_mem_mods
    intro r _
    simp [eq_comm]

/-- the two fetchers agree on `previous` -/
theorem prevVal_eq_prevSub_mods {t : VTable K} (hc : Chain t) {v : VRow K} (hv : v ∈ t) :
    prevVal t v = prevSub t v := by
  rw [prevSub_eq_find?]
  unfold prevVal
  apply find?_congr_mem_mods
  intro r hr
  exact decide_eq_decide.2 (endTx_eq_iff_prevTx hc hv hr)

/-- the `LEFT JOIN` of the backfill tool yields exactly the preceding version, if any -/
theorem preds_eq_prevSub_toList {t : VTable K} (hpk : PKUnique t) (hc : Chain t) {v : VRow K}
    (hv : v ∈ t) :
    t.filter (fun p => p.key = v.key ∧ p.endTx = some v.tx) = (prevSub t v).toList := by
  rw [prevSub_eq_find?]
  have h1 : t.filter (fun p => decide (p.key = v.key ∧ p.endTx = some v.tx)) =
      t.filter (fun r => decide (r.key = v.key ∧ prevTx t v.key v.tx = some r.tx)) := by
    apply List.filter_congr
    intro r hr
    exact decide_eq_decide.2 (endTx_eq_iff_prevTx hc hv hr)
  rw [h1]
  apply filter_eq_find?_toList
  unfold PKUnique at hpk
  refine hpk.imp ?_
  intro a b hab
  simp only [decide_eq_true_eq]
  rintro ⟨⟨hka, hta⟩, ⟨hkb, htb⟩⟩
  apply hab
  refine ⟨hka.trans hkb.symm, ?_⟩
  rw [hta] at htb
  exact Option.some.inj htb

theorem preds_eq_nil {t : VTable K} (hpk : PKUnique t) (hc : Chain t) {v : VRow K}
    (hv : v ∈ t) (h : prevSub t v = none) :
    t.filter (fun p => p.key = v.key ∧ p.endTx = some v.tx) = [] := by
  rw [preds_eq_prevSub_toList hpk hc hv, h]; rfl

theorem preds_eq_singleton {t : VTable K} (hpk : PKUnique t) (hc : Chain t) {v p : VRow K}
    (hv : v ∈ t) (h : prevSub t v = some p) :
    t.filter (fun p => p.key = v.key ∧ p.endTx = some v.tx) = [p] := by
  rw [preds_eq_prevSub_toList hpk hc hv, h]; rfl

end Continuum
