import Continuum.Basic
import Continuum.Lemmas.Chain

namespace Continuum
variable {K : Type} [DecidableEq K]

/-- what the abstraction function reads of the as-of row: operation type and values -/
def asOfData (t : VTable K) (k : K) (x : Nat) : Option (Op × List Val) :=
  (lastTx t k x).bind fun m =>
    (t.find? (fun r => r.key = k ∧ r.tx = m)).map (fun r => (r.op, r.vals))

theorem lastTx_eq_some {t : VTable K} {k : K} {x n : Nat} :
    lastTx t k x = some n ↔ Has t k n ∧ n ≤ x ∧ ∀ r ∈ t, r.key = k → r.tx ≤ x → r.tx ≤ n := by
  unfold lastTx txsUpTo Has
  rw [List.max?_eq_some_iff]
  simp only [List.mem_map, List.mem_filter, decide_eq_true_eq]
  constructor
  · rintro ⟨⟨r, ⟨hr, hk, hx⟩, rfl⟩, hmax⟩
    exact ⟨⟨r, hr, hk, rfl⟩, hx, fun r' hr' hk' hx' => hmax _ ⟨r', ⟨hr', hk', hx'⟩, rfl⟩⟩
  · rintro ⟨⟨r, hr, hk, rfl⟩, hx, hmax⟩
    exact ⟨⟨r, ⟨hr, hk, hx⟩, rfl⟩, by rintro b ⟨r', ⟨hr', hk', hx'⟩, rfl⟩; exact hmax r' hr' hk' hx'⟩

theorem lastTx_eq_none {t : VTable K} {k : K} {x : Nat} :
    lastTx t k x = none ↔ ∀ r ∈ t, r.key = k → ¬ r.tx ≤ x := by
  unfold lastTx txsUpTo
  simp [List.filter_eq_nil_iff]

theorem lastTx_congr {t t' : VTable K} {k : K} {x : Nat}
    (h : ∀ n, n ≤ x → (Has t k n ↔ Has t' k n)) : lastTx t k x = lastTx t' k x := by
  cases hn : lastTx t' k x with
  | none =>
    rw [lastTx_eq_none] at hn ⊢
    intro r hr hk hx
    obtain ⟨r', hr', hk', htx'⟩ := (h r.tx hx).1 ⟨r, hr, hk, rfl⟩
    exact hn r' hr' hk' (by omega)
  | some n =>
    rw [lastTx_eq_some] at hn ⊢
    obtain ⟨hex, hx, hmax⟩ := hn
    refine ⟨(h n hx).2 hex, hx, ?_⟩
    intro r hr hk hxr
    obtain ⟨r', hr', hk', htx'⟩ := (h r.tx hxr).1 ⟨r, hr, hk, rfl⟩
    have := hmax r' hr' hk' (by omega)
    omega

/-- a row-wise rewrite that keeps `(key, tx)` and keeps the data of rows stamped `m`
    does not change the data found for `(k', m)` -/
theorem find_data_map (f : VRow K → VRow K) (k' : K) (m : Nat)
    (hk : ∀ r, (f r).key = r.key ∧ (f r).tx = r.tx)
    (hd : ∀ r, r.key = k' → r.tx = m → (f r).op = r.op ∧ (f r).vals = r.vals) (l : VTable K) :
    ((l.map f).find? (fun r => r.key = k' ∧ r.tx = m)).map (fun r => (r.op, r.vals))
    = (l.find? (fun r => r.key = k' ∧ r.tx = m)).map (fun r => (r.op, r.vals)) := by
  induction l with
  | nil => rfl
  | cons a l ih =>
    simp only [List.map_cons, List.find?_cons, (hk a).1, (hk a).2]
    by_cases hp : a.key = k' ∧ a.tx = m
    · simp [hp, (hd a hp.1 hp.2).1, (hd a hp.1 hp.2).2]
    · simp only [hp, decide_false]
      exact ih

/-- data of the row `(k', m)` found by `find?`, for `m < T`, is not touched by a write at `T` -/
theorem find_data_writeVersion {t : VTable K} {k : K} {T : Nat} {op : Op} {vals mods} (k' : K) (m : Nat) (hm : m < T) :
    ((writeVersion t k T op vals mods).find? (fun r => r.key = k' ∧ r.tx = m)).map (fun r => (r.op, r.vals))
    = (t.find? (fun r => r.key = k' ∧ r.tx = m)).map (fun r => (r.op, r.vals)) := by
  have hclose : ∀ u : VTable K,
      ((closePrev u k T).find? (fun r => r.key = k' ∧ r.tx = m)).map (fun r => (r.op, r.vals))
      = (u.find? (fun r => r.key = k' ∧ r.tx = m)).map (fun r => (r.op, r.vals)) := by
    intro u
    unfold closePrev
    split
    · rfl
    · apply find_data_map
      · intro r; split <;> simp
      · intro r _ _; split <;> simp
  unfold writeVersion
  rw [hclose]
  unfold upsert
  split
  · apply find_data_map
    · intro r; split <;> simp
    · intro r _ hr
      split
      · rename_i hc; omega
      · simp
  · rw [List.find?_append]
    have : ¬ (k = k' ∧ T = m) := by omega
    simp [this]

/-- Past immutability: a write stamped `T` does not change what any earlier id `x < T` shows. -/
theorem asOfData_past {t : VTable K} {k : K} {T : Nat} {op : Op} {vals mods} (k' : K) (x : Nat) (hx : x < T) :
    asOfData (writeVersion t k T op vals mods) k' x = asOfData t k' x := by
  unfold asOfData
  have hl : lastTx (writeVersion t k T op vals mods) k' x = lastTx t k' x := by
    apply lastTx_congr
    intro n hn
    unfold writeVersion
    rw [has_closePrev, has_upsert]
    constructor
    · rintro (h | ⟨_, h⟩); exact h; omega
    · exact Or.inl
  rw [hl]
  cases hm : lastTx t k' x with
  | none => rfl
  | some m =>
    have : m < T := by
      rw [lastTx_eq_some] at hm; omega
    simp only [Option.bind_some]
    exact find_data_writeVersion k' m this


theorem bounded_writeVersion {t : VTable K} {k : K} {T : Nat} {op : Op} {vals mods} (hb : Bounded t T) :
    Bounded (writeVersion t k T op vals mods) T := by
  intro r hr
  have : Has (writeVersion t k T op vals mods) r.key r.tx := ⟨r, hr, rfl, rfl⟩
  unfold writeVersion at this
  rw [has_closePrev, has_upsert] at this
  rcases this with ⟨r0, hr0, _, h⟩ | ⟨_, h⟩
  · have := hb r0 hr0; omega
  · omega

/-- every row stamped `(k,T)` after the write carries the written data -/
theorem data_of_written {t : VTable K} {k : K} {T : Nat} {op : Op} {vals mods} :
    ∀ r ∈ writeVersion t k T op vals mods, r.key = k → r.tx = T → r.op = op ∧ r.vals = vals := by
  intro r hr hk ht
  unfold writeVersion closePrev at hr
  have hup : ∀ r ∈ upsert t k T op vals mods, r.key = k → r.tx = T → r.op = op ∧ r.vals = vals := by
    intro r hr hk ht
    unfold upsert at hr
    split at hr
    · simp only [List.mem_map] at hr
      obtain ⟨a, _, rfl⟩ := hr
      split
      · simp
      · rename_i hc
        split at hk <;> split at ht <;> simp_all
    · simp only [List.mem_append, List.mem_singleton] at hr
      rcases hr with hr | rfl
      · rename_i hany
        simp only [List.any_eq_true, decide_eq_true_eq, not_exists, not_and] at hany
        exact absurd ht (hany r hr hk)
      · simp
  split at hr
  · exact hup r hr hk ht
  · rename_i p _
    simp only [List.mem_map] at hr
    obtain ⟨a, ha, rfl⟩ := hr
    by_cases hc : a.key = k ∧ a.tx = p
    · simp only [hc, and_self, ↓reduceIte] at hk ht ⊢
      exact hup a ha hc.1 (by omega)
    · simp only [hc, ↓reduceIte] at hk ht ⊢
      exact hup a ha hk ht

/-- Present faithfulness: from the write on, the as-of view of `k` at any `x ≥ T`
    shows exactly the operation and values just written (while `T` stays the newest id). -/
theorem asOfData_present {t : VTable K} {k : K} {T : Nat} {op : Op} {vals mods} (hb : Bounded t T) (x : Nat) (hx : T ≤ x) :
    asOfData (writeVersion t k T op vals mods) k x = some (op, vals) := by
  unfold asOfData
  have hl : lastTx (writeVersion t k T op vals mods) k x = some T := by
    rw [lastTx_eq_some]
    refine ⟨?_, hx, ?_⟩
    · unfold writeVersion; rw [has_closePrev, has_upsert]; exact Or.inr ⟨rfl, rfl⟩
    · intro r hr _ _; exact bounded_writeVersion hb r hr
  rw [hl]
  simp only [Option.bind_some]
  have hex : Has (writeVersion t k T op vals mods) k T := by
    unfold writeVersion; rw [has_closePrev, has_upsert]; exact Or.inr ⟨rfl, rfl⟩
  cases hf : (writeVersion t k T op vals mods).find? (fun r => r.key = k ∧ r.tx = T) with
  | none =>
    rw [List.find?_eq_none] at hf
    obtain ⟨r, hr, h1, h2⟩ := hex
    exact absurd (by simp [h1, h2]) (hf r hr)
  | some r =>
    have hmem := List.mem_of_find?_eq_some hf
    have hp := List.find?_some hf
    simp only [decide_eq_true_eq] at hp
    have := data_of_written r hmem hp.1 hp.2
    simp [this.1, this.2]

/-- Frame: other keys' as-of views are untouched at every `x`. -/
theorem asOfData_frame {t : VTable K} {k : K} {T : Nat} {op : Op} {vals mods} (k' : K) (x : Nat) (hk : k' ≠ k) :
    asOfData (writeVersion t k T op vals mods) k' x = asOfData t k' x := by
  unfold asOfData
  have hl : lastTx (writeVersion t k T op vals mods) k' x = lastTx t k' x := by
    apply lastTx_congr
    intro n _
    unfold writeVersion
    rw [has_closePrev, has_upsert]
    constructor
    · rintro (h | ⟨h, _⟩); exact h; exact absurd h hk
    · exact Or.inl
  rw [hl]
  cases hm : lastTx t k' x with
  | none => rfl
  | some m =>
    simp only [Option.bind_some]
    have hclose : ∀ u : VTable K,
        ((closePrev u k T).find? (fun r => r.key = k' ∧ r.tx = m)).map (fun r => (r.op, r.vals))
        = (u.find? (fun r => r.key = k' ∧ r.tx = m)).map (fun r => (r.op, r.vals)) := by
      intro u
      unfold closePrev
      split
      · rfl
      · apply find_data_map
        · intro r; split <;> simp
        · intro r _ _; split <;> simp
    unfold writeVersion
    rw [hclose]
    unfold upsert
    split
    · apply find_data_map
      · intro r; split <;> simp
      · intro r hr _
        split
        · rename_i hc; exact absurd (hr.symm.trans hc.1) hk
        · simp
    · rw [List.find?_append]
      have : ¬ (k = k' ∧ T = m) := fun h => hk h.1.symm
      simp [this]


end Continuum
