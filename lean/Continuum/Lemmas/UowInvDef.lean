import Continuum.Spec.Uow

/-!
# The database invariant of the unit-of-work state machine (definitions only)

`Inv cfg s` collects what holds in every state reachable by a well-formed trace: ids never
dangle, the current transaction id is the newest id and was created by the open database
transaction, every row written since the last commit carries it, the version primary key, the
validity chain, and immutability of the committed past.
-/

namespace Continuum

/-- invariants of one database snapshot -/
structure DbInv (cfg : Cfg) (d : Db) : Prop where
  txs_in : ∀ r ∈ d.versions, r.tx ∈ d.txs
  atxs_in : ∀ a ∈ d.assoc, a.tx ∈ d.txs
  pk : PKUnique d.versions
  chain : cfg.strategy = .validity → Chain d.versions

structure Inv (cfg : Cfg) (s : St) : Prop where
  db : DbInv cfg s.db
  committed : DbInv cfg s.committed
  /-- the current transaction record exists, is the newest, and belongs to the open transaction -/
  cur_in : ∀ T, s.uowD.cur = some T →
    T ∈ s.db.txs ∧ (∀ x ∈ s.db.txs, x ≤ T) ∧ T ∉ s.committed.txs
  /-- committed records are still there -/
  grow : ∀ x ∈ s.committed.txs, x ∈ s.db.txs
  /-- the only record created since the last commit is the current one -/
  fresh : ∀ x ∈ s.db.txs, x ∉ s.committed.txs → s.uowD.cur = some x
  /-- every version row is either a committed one or stamped with the current id -/
  rows_old_or_cur : ∀ r ∈ s.db.versions,
    (∃ r' ∈ s.committed.versions, r'.key = r.key ∧ r'.tx = r.tx) ∨ s.uowD.cur = some r.tx
  assoc_old_or_cur : ∀ a ∈ s.db.assoc, a ∈ s.committed.assoc ∨ s.uowD.cur = some a.tx
  /-- the committed past is immutable except for the end column -/
  past : ∀ r' ∈ s.committed.versions, ∃ r ∈ s.db.versions,
    r.key = r'.key ∧ r.tx = r'.tx ∧ r.op = r'.op ∧ r.vals = r'.vals

end Continuum
