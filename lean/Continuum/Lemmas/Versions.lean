import Continuum.Temporal
import Continuum.Lemmas.Chain

/-!
# Facts about `versionsOf` (the `ORDER BY transaction_id` collection)

* it is a permutation of `rowsOf t k`, sorted by `tx`, strictly sorted under `PKUnique`;
* positional characterisations of `indexOf`, `nextTx`, `prevTx` on the sorted id list;
* `rowAt` finds a row carrying the requested id;
* under a well-formed `Chain` the validity navigation coincides with the subquery navigation.

Core Lean only.
-/

namespace Continuum
variable {K : Type} [DecidableEq K]

/-! ## strictly increasing lists of naturals -/

theorem lt_of_pairwise_lt {l : List Nat} (h : l.Pairwise (· < ·)) {i j : Nat}
    (hi : i < l.length) (hj : j < l.length) (hij : i < j) : l[i] < l[j] :=
  (List.pairwise_iff_getElem.1 h) i j hi hj hij

theorem le_of_pairwise_lt {l : List Nat} (h : l.Pairwise (· < ·)) {i j : Nat}
    (hi : i < l.length) (hj : j < l.length) (hij : i ≤ j) : l[i] ≤ l[j] := by
  rcases Nat.lt_or_eq_of_le hij with h' | rfl
  · exact Nat.le_of_lt (lt_of_pairwise_lt h hi hj h')
  · exact Nat.le_refl _

theorem idx_lt_of_getElem_lt {l : List Nat} (h : l.Pairwise (· < ·)) {i j : Nat}
    (hi : i < l.length) (hj : j < l.length) (hij : l[i] < l[j]) : i < j := by
  apply Classical.byContradiction
  intro hn
  have := le_of_pairwise_lt h hj hi (Nat.le_of_not_lt hn)
  omega

/-- in a strictly increasing list exactly `i` elements are smaller than the `i`-th -/
theorem length_filter_lt_getElem {l : List Nat} (h : l.Pairwise (· < ·)) {i : Nat}
    (hi : i < l.length) : (l.filter (fun x => decide (x < l[i]))).length = i := by
  induction l generalizing i with
  | nil => simp at hi
  | cons a l ih =>
    rw [List.pairwise_cons] at h
    obtain ⟨ha, hl⟩ := h
    cases i with
    | zero =>
      simp only [List.getElem_cons_zero, List.length_eq_zero_iff, List.filter_eq_nil_iff,
        List.mem_cons, decide_eq_true_eq]
      rintro x (rfl | hx)
      · omega
      · have := ha x hx; omega
    | succ j =>
      have hj : j < l.length := by simpa using hi
      have hlt : a < l[j] := ha _ (List.getElem_mem hj)
      simp only [List.getElem_cons_succ]
      rw [List.filter_cons_of_pos (by simpa using hlt), List.length_cons, ih hl hj]

/-! ## `versionsOf` -/

theorem versionsOf_perm (t : VTable K) (k : K) : (versionsOf t k).Perm (rowsOf t k) :=
  List.mergeSort_perm _ _

theorem mem_rowsOf {t : VTable K} {k : K} {r : VRow K} : r ∈ rowsOf t k ↔ r ∈ t ∧ r.key = k := by
  simp [rowsOf]

theorem mem_versionsOf {t : VTable K} {k : K} {r : VRow K} :
    r ∈ versionsOf t k ↔ r ∈ t ∧ r.key = k := by
  rw [(versionsOf_perm t k).mem_iff, mem_rowsOf]

theorem versionsOf_sorted (t : VTable K) (k : K) :
    (versionsOf t k).Pairwise (fun a b => a.tx ≤ b.tx) := by
  have h := List.pairwise_mergeSort (le := fun (a b : VRow K) => decide (a.tx ≤ b.tx))
    (by intro a b c; simp only [decide_eq_true_eq]; omega)
    (by intro a b; simp only [Bool.or_eq_true, decide_eq_true_eq]; omega)
    (rowsOf t k)
  exact h.imp (by intro a b hab; simpa using hab)

theorem rowsOf_tx_ne {t : VTable K} (hpk : PKUnique t) (k : K) :
    (rowsOf t k).Pairwise (fun a b => a.tx ≠ b.tx) := by
  unfold rowsOf
  rw [List.pairwise_filter]
  refine List.Pairwise.imp ?_ hpk
  intro a b hab ha hb htx
  simp only [decide_eq_true_eq] at ha hb
  exact hab ⟨ha.trans hb.symm, htx⟩

/-- under the primary key the versions of one entity are strictly ordered by id -/
theorem versionsOf_strict {t : VTable K} (hpk : PKUnique t) (k : K) :
    (versionsOf t k).Pairwise (fun a b => a.tx < b.tx) := by
  have hne : (versionsOf t k).Pairwise (fun a b => a.tx ≠ b.tx) :=
    ((versionsOf_perm t k).pairwise_iff (R := fun a b : VRow K => a.tx ≠ b.tx)
      (fun h => Ne.symm h)).2 (rowsOf_tx_ne hpk k)
  refine ((versionsOf_sorted t k).and hne).imp ?_
  rintro a b ⟨h1, h2⟩
  omega

/-- the sorted id list of entity `k` -/
def txsOf (t : VTable K) (k : K) : List Nat := (versionsOf t k).map (·.tx)

theorem length_txsOf (t : VTable K) (k : K) : (txsOf t k).length = (versionsOf t k).length := by
  simp [txsOf]

theorem getElem_txsOf {t : VTable K} {k : K} {i : Nat} (hi : i < (versionsOf t k).length) :
    (txsOf t k)[i]'(by rw [length_txsOf]; exact hi) = ((versionsOf t k)[i]).tx := by
  simp [txsOf]

theorem txsOf_strict {t : VTable K} (hpk : PKUnique t) (k : K) :
    (txsOf t k).Pairwise (· < ·) := by
  unfold txsOf
  rw [List.pairwise_map]
  exact versionsOf_strict hpk k

theorem mem_txsOf {t : VTable K} {k : K} {n : Nat} : n ∈ txsOf t k ↔ Has t k n := by
  unfold txsOf Has
  simp only [List.mem_map, mem_versionsOf]
  constructor
  · rintro ⟨r, ⟨hr, hk⟩, rfl⟩; exact ⟨r, hr, hk, rfl⟩
  · rintro ⟨r, hr, hk, rfl⟩; exact ⟨r, ⟨hr, hk⟩, rfl⟩

theorem indexOf_eq_filter_txsOf (t : VTable K) (k : K) (x : Nat) :
    indexOf t k x = ((txsOf t k).filter (fun n => decide (n < x))).length := by
  unfold indexOf txsOf
  have h1 : t.filter (fun r => decide (r.key = k ∧ r.tx < x))
      = (rowsOf t k).filter (fun r => decide (r.tx < x)) := by
    unfold rowsOf
    rw [List.filter_filter]
    apply List.filter_congr
    intro r _
    simp only [Bool.decide_and, Bool.and_comm]
  rw [h1, ← ((versionsOf_perm t k).filter _).length_eq]
  rw [List.filter_map, List.length_map]
  rfl

/-- the `i`-th version has index `i` -/
theorem indexOf_txsOf {t : VTable K} (hpk : PKUnique t) (k : K) {i : Nat}
    (hi : i < (txsOf t k).length) : indexOf t k (txsOf t k)[i] = i := by
  rw [indexOf_eq_filter_txsOf]
  exact length_filter_lt_getElem (txsOf_strict hpk k) hi

/-- the smallest larger id of the `i`-th version is the `(i+1)`-th id -/
theorem nextTx_txsOf {t : VTable K} (hpk : PKUnique t) (k : K) {i : Nat}
    (hi : i < (txsOf t k).length) : nextTx t k (txsOf t k)[i] = (txsOf t k)[i + 1]? := by
  have hs := txsOf_strict hpk k
  by_cases h : i + 1 < (txsOf t k).length
  · rw [List.getElem?_eq_getElem h, nextTx_eq_some]
    refine ⟨mem_txsOf.1 (List.getElem_mem h), lt_of_pairwise_lt hs hi h (Nat.lt_succ_self i), ?_⟩
    intro r hr hk hlt
    have hmem : r.tx ∈ txsOf t k := mem_txsOf.2 ⟨r, hr, hk, rfl⟩
    obtain ⟨j, hj, hjeq⟩ := List.getElem_of_mem hmem
    rw [← hjeq] at hlt ⊢
    exact le_of_pairwise_lt hs h hj (idx_lt_of_getElem_lt hs hi hj hlt)
  · rw [List.getElem?_eq_none (Nat.le_of_not_lt h), nextTx_eq_none]
    intro r hr hk hlt
    have hmem : r.tx ∈ txsOf t k := mem_txsOf.2 ⟨r, hr, hk, rfl⟩
    obtain ⟨j, hj, hjeq⟩ := List.getElem_of_mem hmem
    rw [← hjeq] at hlt
    have := idx_lt_of_getElem_lt hs hi hj hlt
    omega

/-- the greatest smaller id of the `i`-th version is the `(i-1)`-th id -/
theorem prevTx_txsOf {t : VTable K} (hpk : PKUnique t) (k : K) {i : Nat}
    (hi : i < (txsOf t k).length) :
    prevTx t k (txsOf t k)[i] = if i = 0 then none else (txsOf t k)[i - 1]? := by
  have hs := txsOf_strict hpk k
  by_cases h : i = 0
  · rw [if_pos h, prevTx_eq_none]
    subst h
    intro r hr hk hlt
    have hmem : r.tx ∈ txsOf t k := mem_txsOf.2 ⟨r, hr, hk, rfl⟩
    obtain ⟨j, hj, hjeq⟩ := List.getElem_of_mem hmem
    rw [← hjeq] at hlt
    have := idx_lt_of_getElem_lt hs hj hi hlt
    omega
  · have h' : i - 1 < (txsOf t k).length := by omega
    rw [if_neg h, List.getElem?_eq_getElem h', prevTx_eq_some]
    refine ⟨mem_txsOf.1 (List.getElem_mem h'), lt_of_pairwise_lt hs h' hi (by omega), ?_⟩
    intro r hr hk hlt
    have hmem : r.tx ∈ txsOf t k := mem_txsOf.2 ⟨r, hr, hk, rfl⟩
    obtain ⟨j, hj, hjeq⟩ := List.getElem_of_mem hmem
    rw [← hjeq] at hlt ⊢
    have := idx_lt_of_getElem_lt hs hj hi hlt
    exact le_of_pairwise_lt hs hj h' (by omega)

/-! ## `rowAt` and the navigation accessors -/

/-- `find?` only looks at the predicate on members of the list -/
theorem find?_congr_mem {α : Type} {p q : α → Bool} {l : List α} (h : ∀ a ∈ l, p a = q a) :
    l.find? p = l.find? q := by
  induction l with
  | nil => rfl
  | cons a l ih =>
    simp only [List.find?_cons, h a (List.mem_cons_self ..)]
    rw [ih (fun b hb => h b (List.mem_cons_of_mem _ hb))]

theorem rowAt_eq_some {t : VTable K} {k : K} {n : Nat} {r : VRow K} (h : rowAt t k n = some r) :
    r ∈ t ∧ r.key = k ∧ r.tx = n := by
  unfold rowAt at h
  have h1 := List.mem_of_find?_eq_some h
  have h2 := List.find?_some h
  simp only [decide_eq_true_eq] at h2
  exact ⟨h1, h2.1, h2.2⟩

theorem rowAt_isSome_of_has {t : VTable K} {k : K} {n : Nat} (h : Has t k n) :
    ∃ r, rowAt t k n = some r := by
  obtain ⟨r, hr, hk, hn⟩ := h
  cases hf : rowAt t k n with
  | some r' => exact ⟨r', rfl⟩
  | none =>
    unfold rowAt at hf
    rw [List.find?_eq_none] at hf
    have := hf r hr
    simp [hk, hn] at this

/-- `rowAt` of an existing id carries that id -/
theorem rowAt_map_tx {t : VTable K} {k : K} {n : Nat} (h : Has t k n) :
    (rowAt t k n).map (·.tx) = some n := by
  obtain ⟨r, hr⟩ := rowAt_isSome_of_has h
  rw [hr]
  simp [(rowAt_eq_some hr).2.2]

/-- under the primary key `rowAt` finds *the* row -/
theorem rowAt_eq_of_mem {t : VTable K} (hpk : PKUnique t) {r : VRow K} (hr : r ∈ t) :
    rowAt t r.key r.tx = some r := by
  unfold rowAt
  induction t with
  | nil => simp at hr
  | cons a t ih =>
    unfold PKUnique at hpk
    rw [List.pairwise_cons] at hpk
    rcases List.mem_cons.1 hr with rfl | hr'
    · simp
    · have hna : ¬ (a.key = r.key ∧ a.tx = r.tx) := hpk.1 r hr'
      rw [List.find?_cons_of_neg (by simpa using hna)]
      exact ih hpk.2 hr'

theorem nextSub_map_tx (t : VTable K) (v : VRow K) :
    (nextSub t v).map (·.tx) = nextTx t v.key v.tx := by
  unfold nextSub
  cases hn : nextTx t v.key v.tx with
  | none => rfl
  | some n =>
    simp only [Option.bind_some]
    exact rowAt_map_tx (nextTx_eq_some.1 hn).1

theorem prevSub_map_tx (t : VTable K) (v : VRow K) :
    (prevSub t v).map (·.tx) = prevTx t v.key v.tx := by
  unfold prevSub
  cases hn : prevTx t v.key v.tx with
  | none => rfl
  | some n =>
    simp only [Option.bind_some]
    exact rowAt_map_tx (prevTx_eq_some.1 hn).1

/-- under a well-formed chain the `end_tx`-based `next` is the subquery `next` -/
theorem nextVal_eq_nextSub {t : VTable K} (hc : Chain t) {v : VRow K} (hv : v ∈ t) :
    nextVal t v = nextSub t v := by
  unfold nextVal nextSub
  rw [hc v hv]
  cases nextTx t v.key v.tx <;> rfl

/-- under a well-formed chain the `end_tx`-based `previous` is the subquery `previous` -/
theorem prevVal_eq_prevSub {t : VTable K} (hc : Chain t) {v : VRow K} (hv : v ∈ t) :
    prevVal t v = prevSub t v := by
  unfold prevVal prevSub
  cases hp : prevTx t v.key v.tx with
  | none =>
    simp only [Option.bind_none]
    rw [List.find?_eq_none]
    intro r hr
    simp only [decide_eq_true_eq, not_and]
    intro hk he
    rw [hc r hr, hk, nextTx_eq_some] at he
    exact (prevTx_eq_none.1 hp) r hr hk he.2.1
  | some p =>
    simp only [Option.bind_some]
    unfold rowAt
    apply find?_congr_mem
    intro r hr
    obtain ⟨hex, hlt, hmax⟩ := prevTx_eq_some.1 hp
    by_cases hk : r.key = v.key
    · simp only [hk, true_and, decide_eq_decide]
      rw [hc r hr, hk, nextTx_eq_some]
      constructor
      · rintro ⟨_, hrv, hmin⟩
        obtain ⟨rp, hrp, hkp, hxp⟩ := hex
        have h1 := hmax r hr hk hrv
        by_cases h2 : r.tx < p
        · have := hmin rp hrp hkp (by omega); omega
        · omega
      · intro hrp
        refine ⟨⟨v, hv, rfl, rfl⟩, by omega, ?_⟩
        intro r2 hr2 hk2 hlt2
        by_cases h2 : r2.tx < v.tx
        · have := hmax r2 hr2 hk2 h2; omega
        · omega
    · simp [hk]

end Continuum
