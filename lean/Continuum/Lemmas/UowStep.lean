import Continuum.Lemmas.UowTx

/-!
# `TxInv` along the step function and along a well-formed trace
-/

namespace Continuum

/-- `TxInv` read off a model state; `s0` is the boundary state the transaction started from -/
def TxInvS (cfg : Cfg) (s0 : St) (pre : List Ev) (st : St) : Prop :=
  TxInv cfg s0.db.versions s0.db.live pre st.db.versions st.db.live st.uowD.cur st.uowD.ops

theorem txInvS_same {cfg : Cfg} {s0 st : St} {pre : List Ev} (h : TxInvS cfg s0 pre st) (e : Ev)
    (he : e.tracked cfg = false) (st' : St)
    (hV : st'.db.versions = st.db.versions) (hL : st'.db.live = st.db.live)
    (hops : st'.uowD.ops = st.uowD.ops)
    (hcur : st'.uowD.cur = st.uowD.cur ∨ st.uowD.cur = none) : TxInvS cfg s0 (pre ++ [e]) st' := by
  unfold TxInvS at h ⊢
  rw [hV, hL, hops]
  rcases hcur with hc | hc
  · rw [hc]; exact h.snoc e he
  · have hops0 : st.uowD.ops = [] := by
      cases ho : st.uowD.ops with
      | nil => rfl
      | cons a l =>
        have := h.cur_some (by rw [ho]; exact List.cons_ne_nil _ _)
        rw [hc] at this; cases this
    exact (h.snoc e he).setCur hops0 _

theorem uowD_some (st : St) (u : Uow) : St.uowD { st with uow := some u } = u := rfl

theorem step_afterFlush_none_l (cfg : Cfg) (st : St) (hc : st.uowD.cur = none) :
    step cfg st .afterFlush = { st with uow := some st.uowD } := by
  simp only [step, uowD_some, hc]

theorem step_afterFlush_some_l (cfg : Cfg) (st : St) (T : Nat) (hc : st.uowD.cur = some T) :
    (step cfg st .afterFlush).db.versions = processOps cfg st.db.versions T st.uowD.ops ∧
    (step cfg st .afterFlush).db.live = st.db.live ∧
    (step cfg st .afterFlush).uowD.cur = some T ∧
    (step cfg st .afterFlush).uowD.ops = st.uowD.ops.map (fun e => { e with processed := true }) := by
  simp only [step, uowD_some, hc]
  generalize addAssoc st.db.assoc T st.uowD.pending = p
  obtain ⟨a, d⟩ := p
  refine ⟨?_, ?_, ?_, ?_⟩ <;> first | trivial | rfl

theorem liveWrite_eq (cfg : Cfg) (l : Live) (c : Nat) (pk : List Int) (vals : List Val) :
    liveWrite cfg l c pk vals = liveWriteL l (cfg.cls c).tables pk vals := rfl

theorem liveRemove_eq (cfg : Cfg) (l : Live) (c : Nat) (pk : List Int) :
    liveRemove cfg l c pk = liveRemoveL l (cfg.cls c).tables pk := rfl

theorem bounded_of_inv {cfg : Cfg} {st : St} (hinv : Inv cfg st) {T : Nat}
    (hc : st.uowD.cur = some T) : Bounded st.db.versions T :=
  fun r hr => (hinv.cur_in T hc).2.1 _ (hinv.db.txs_in r hr)

/-- an update that is not turned into an operation rewrites the live rows with the same values -/
theorem untracked_live {cfg : Cfg} (hcfg : CfgOK cfg) (hrange : ColsInRange cfg) {L : Live}
    {c : Nat} {pk : List Int} {vals : List Val} {cc rc kc kr : List Bool}
    (hun : (isModified (cfg.cls c) cc rc && committedNonEmpty (cfg.cls c) kc kr) = false)
    (hchg : ∀ i ∈ List.range cc.length, (cc[i]?).getD false = true → (kc[i]?).getD false = true)
    (hold : ∀ tc ∈ (cfg.cls c).tables, (liveGet L (tc.1, pk)).isSome = true ∧
        ∀ old ∈ (liveGet L (tc.1, pk)).toList, unchangedKept tc.2 vals cc old)
    (hsh : ∀ tc ∈ (cfg.cls c).tables, ∀ old ∈ (liveGet L (tc.1, pk)).toList, liveShaped tc.2 old) :
    ∀ k, liveGet (liveWrite cfg L c pk vals) k = liveGet L k := by
  rw [liveWrite_eq]
  apply liveWriteL_same _ _ _ L _ L (fun _ => rfl)
  intro tc htc
  obtain ⟨hsome, hunch⟩ := hold tc htc
  cases hg : liveGet L (tc.1, pk) with
  | none => rw [hg] at hsome; cases hsome
  | some old =>
    have h1 := hunch old (by rw [hg]; simp)
    have h2 := hsh tc htc old (by rw [hg]; simp)
    rw [tableVals_eq_old h1 h2 (fun j i hj => untracked_cc hcfg hrange hun hchg htc hj)]

theorem txInvS_step (cfg : Cfg) (hcfg : CfgOK cfg) (hnd : TablesNodup cfg) (hrange : ColsInRange cfg)
    (s0 st : St) (pre : List Ev) (e : Ev) (h : TxInvS cfg s0 pre st) (hinv : Inv cfg st)
    (hok : EvOK cfg st e) (hsh : UpdShapeOK cfg st e) (hend : e.isEnd = false) :
    TxInvS cfg s0 (pre ++ [e]) (step cfg st e) := by
  cases e with
  | beforeFlush objs newId pm =>
    simp only [step]
    split
    · exact txInvS_same h _ rfl _ rfl rfl rfl (Or.inl rfl)
    · split
      · exact txInvS_same h _ rfl _ rfl rfl rfl (Or.inl rfl)
      · rename_i hc
        refine txInvS_same h _ rfl _ rfl rfl rfl (Or.inr ?_)
        rw [uowD_some] at hc
        cases hcur : st.uowD.cur with
        | none => rfl
        | some T => rw [hcur] at hc; simp at hc
  | manualTx newId =>
    simp only [EvOK] at hok
    exact txInvS_same h _ rfl _ rfl rfl rfl (Or.inr hok.1)
  | ins c pk vals changed =>
    simp only [step]
    split
    · rename_i hv
      exact txInvS_same h _ (by simp only [Ev.tracked]; simpa using hv) _ rfl rfl rfl (Or.inl rfl)
    · rename_i hv
      have hv' : (cfg.cls c).versioned = true := by simpa using hv
      simp only [EvOK] at hok
      obtain ⟨hcur, hproc, hncs, _⟩ := hok hv'
      unfold TxInvS at h ⊢
      refine h.tracked (.ins c pk vals changed) c pk (by simp only [Ev.tracked]; exact hv') rfl
        _ rfl rfl rfl rfl ?_ hcur hproc hncs _ ?_ ?_ ?_
      · simp only [Ev.isDel]
        constructor
        · intro hf; cases hf
        · intro hf; split at hf <;> cases hf
      · intro k hocc
        show liveGet (liveWrite cfg st.db.live c pk vals) k = _
        rw [liveWrite_eq]
        exact liveWriteL_frame _ _ _ _ _ (fun tc htc heq => hocc ⟨tc, htc, heq⟩)
      · intro tc htc
        show liveGet (liveWrite cfg st.db.live c pk vals) (tc.1, pk) = _
        rw [liveWrite_eq, liveWriteL_hit _ _ _ _ (tables_nodup hnd c) tc htc]
        split <;> rfl
      · show ((liveWrite cfg st.db.live c pk vals).map (·.1)).Nodup
        rw [liveWrite_eq]
        exact nodup_liveWriteL _ _ _ _ h.nodup
  | upd c pk vals cc rc kc kr =>
    simp only [step]
    split
    · rename_i hv
      refine txInvS_same h _ ?_ _ rfl rfl rfl (Or.inl rfl)
      have : (cfg.cls c).versioned = false := by simpa using hv
      simp [Ev.tracked, this]
    · rename_i hv
      have hv' : (cfg.cls c).versioned = true := by simpa using hv
      simp only [EvOK] at hok
      obtain ⟨htrk, hncs, hchg, hold⟩ := hok hv'
      simp only [UpdShapeOK] at hsh
      have hshape := hsh hv'
      have huntracked : ∀ (hun : (isModified (cfg.cls c) cc rc &&
          committedNonEmpty (cfg.cls c) kc kr) = false),
          TxInvS cfg s0 (pre ++ [Ev.upd c pk vals cc rc kc kr])
            { st with db := { st.db with live := liveWrite cfg st.db.live c pk vals } } := by
        intro hun
        unfold TxInvS at h ⊢
        have hnt : (Ev.upd c pk vals cc rc kc kr).tracked cfg = false := by
          simp only [Ev.tracked, hv', Bool.true_and]; exact hun
        refine (h.snoc _ hnt).liveCongr _ (untracked_live hcfg hrange hun hchg hold hshape) ?_
        show ((liveWrite cfg st.db.live c pk vals).map (·.1)).Nodup
        rw [liveWrite_eq]
        exact nodup_liveWriteL _ _ _ _ h.nodup
      split
      · rename_i hm
        have hm' : isModified (cfg.cls c) cc rc = false := by simpa using hm
        exact huntracked (by rw [hm']; rfl)
      · rename_i hm
        have hm' : isModified (cfg.cls c) cc rc = true := by simpa using hm
        split
        · rename_i hcn
          have hcn' : committedNonEmpty (cfg.cls c) kc kr = false := by simpa using hcn
          exact huntracked (by rw [hcn']; simp)
        · rename_i hcn
          have hcn' : committedNonEmpty (cfg.cls c) kc kr = true := by simpa using hcn
          have htr : (Ev.upd c pk vals cc rc kc kr).tracked cfg = true := by
            simp only [Ev.tracked, hv', hm', hcn']; rfl
          obtain ⟨hcur, hproc⟩ := htrk htr
          unfold TxInvS at h ⊢
          refine h.tracked (.upd c pk vals cc rc kc kr) c pk htr rfl
            _ rfl rfl rfl rfl ?_ hcur hproc hncs _ ?_ ?_ ?_
          · simp only [Ev.isDel]
            constructor
            · intro hf; cases hf
            · intro hf; cases hf
          · intro k hocc
            show liveGet (liveWrite cfg st.db.live c pk vals) k = _
            rw [liveWrite_eq]
            exact liveWriteL_frame _ _ _ _ _ (fun tc htc heq => hocc ⟨tc, htc, heq⟩)
          · intro tc htc
            show liveGet (liveWrite cfg st.db.live c pk vals) (tc.1, pk) = _
            rw [liveWrite_eq, liveWriteL_hit _ _ _ _ (tables_nodup hnd c) tc htc]
            rfl
          · show ((liveWrite cfg st.db.live c pk vals).map (·.1)).Nodup
            rw [liveWrite_eq]
            exact nodup_liveWriteL _ _ _ _ h.nodup
  | del c pk vals =>
    simp only [step]
    split
    · rename_i hv
      exact txInvS_same h _ (by simp only [Ev.tracked]; simpa using hv) _ rfl rfl rfl (Or.inl rfl)
    · rename_i hv
      have hv' : (cfg.cls c).versioned = true := by simpa using hv
      simp only [EvOK] at hok
      obtain ⟨hcur, hproc, hncs, _⟩ := hok hv'
      unfold TxInvS at h ⊢
      refine h.tracked (.del c pk vals) c pk (by simp only [Ev.tracked]; exact hv') rfl
        _ rfl rfl rfl rfl ?_ hcur hproc hncs _ ?_ ?_ ?_
      · simp only [Ev.isDel]
      · intro k hocc
        show liveGet (liveRemove cfg st.db.live c pk) k = _
        rw [liveRemove_eq]
        exact liveRemoveL_frame _ _ _ _ (fun tc htc heq => hocc ⟨tc, htc, heq⟩)
      · intro tc htc
        show liveGet (liveRemove cfg st.db.live c pk) (tc.1, pk) = _
        rw [liveRemove_eq, liveRemoveL_hit _ _ _ tc htc]
        rfl
      · show ((liveRemove cfg st.db.live c pk).map (·.1)).Nodup
        rw [liveRemove_eq]
        exact nodup_liveRemoveL _ _ _ h.nodup
  | assoc tbl op links =>
    simp only [step]
    split
    · exact txInvS_same h _ rfl _ rfl rfl rfl (Or.inl rfl)
    · exact txInvS_same h _ rfl _ rfl rfl rfl (Or.inl rfl)
  | afterFlush =>
    cases hc : st.uowD.cur with
    | none =>
      rw [step_afterFlush_none_l cfg st hc]
      exact txInvS_same h _ rfl _ rfl rfl rfl (Or.inl rfl)
    | some T =>
      obtain ⟨h1, h2, h3, h4⟩ := step_afterFlush_some_l cfg st T hc
      unfold TxInvS at h ⊢
      rw [h1, h2, h3, h4]
      rw [hc] at h
      exact (h.snoc .afterFlush rfl).flush hnd (bounded_of_inv hinv hc)
  | commit => cases hend
  | rollback => cases hend
  | spBegin => exact txInvS_same h _ rfl _ rfl rfl rfl (Or.inl rfl)
  | spCommit => exact txInvS_same h _ rfl _ rfl rfl rfl (Or.inl rfl)
  | spRollback => simp only [EvOK] at hok

theorem run_cons_l (cfg : Cfg) (s : St) (e : Ev) (es : List Ev) :
    run cfg s (e :: es) = run cfg (step cfg s e) es := rfl

theorem run_append_l (cfg : Cfg) (s : St) (a b : List Ev) :
    run cfg s (a ++ b) = run cfg (run cfg s a) b := by
  unfold run; rw [List.foldl_append]

theorem wf_append' (cfg : Cfg) (a b : List Ev) (s : St) :
    WF cfg s (a ++ b) ↔ WF cfg s a ∧ WF cfg (run cfg s a) b := by
  induction a generalizing s with
  | nil => simp [WF, run]
  | cons e a ih =>
    simp only [List.cons_append, WF, run_cons_l, ih, and_assoc]

theorem txInvS_run (cfg : Cfg) (hcfg : CfgOK cfg) (hnd : TablesNodup cfg) (hrange : ColsInRange cfg)
    (s0 : St) (evs : List Ev) :
    ∀ (pre : List Ev) (st : St), TxInvS cfg s0 pre st →
      (∀ p, p <+: evs → Inv cfg (run cfg st p)) → WF cfg st evs → WFShape cfg st evs →
      (∀ e ∈ evs, e.isEnd = false) → TxInvS cfg s0 (pre ++ evs) (run cfg st evs) := by
  induction evs with
  | nil => intro pre st h _ _ _ _; simpa [run] using h
  | cons e es ih =>
    intro pre st h hinv hwf hsh hne
    rw [run_cons_l, List.append_cons]
    apply ih
    · exact txInvS_step cfg hcfg hnd hrange s0 st pre e h (hinv [] List.nil_prefix) hwf.1 hsh.1
        (hne e List.mem_cons_self)
    · intro p hp
      have := hinv (e :: p) (List.cons_prefix_cons.2 ⟨rfl, hp⟩)
      rwa [run_cons_l] at this
    · exact hwf.2
    · exact hsh.2
    · exact fun e' he' => hne e' (List.mem_cons_of_mem _ he')

end Continuum
