import Continuum.Uow

/-!
# The activity plugin (C18)

`ActivityPlugin.before_flush` stamps activities with the current transaction and computes their
object / target version pointers with `Activity._calculate_tx_id`: the in-flight version object of
this transaction if there is one, else the greatest stored transaction id of the entity — in both
cases the greatest id among the entity's version rows visible when the flush starts.
`ActivityPlugin.is_session_modified` makes the session count as modified.

Since the repair of finding F-ACT both hooks look only at activities that are still PENDING in the
session; `stampAll` is the behaviour before the repair (every activity object present in the
session, committed ones included, was re-stamped).  Core Lean only.
-/

namespace Continuum

/-- an activity row: id, the entity keys it is about, and the three stamped columns -/
structure Act where
  id : Nat
  obj : Option TKey
  tgt : Option TKey
  tx : Option Nat := none
  objTx : Option Nat := none
  tgtTx : Option Nat := none
deriving DecidableEq, Repr

/-- greatest transaction id among the version rows of `k` (`SELECT max(transaction_id) …`) -/
def newestTx (v : VTable TKey) (k : TKey) : Option Nat := ((v.filter (fun r => r.key = k)).map (·.tx)).max?

/-- what `before_flush` writes into one activity -/
def stamp (v : VTable TKey) (T : Nat) (a : Act) : Act :=
  { a with tx := some T, objTx := a.obj.bind (newestTx v), tgtTx := a.tgt.bind (newestTx v) }

/-- a flush in transaction `T`: the pending activities `new` are stamped and stored; stored
activities are left alone -/
def actFlush (v : VTable TKey) (T : Nat) (stored new : List Act) : List Act :=
  stored ++ new.map (stamp v T)

/-- the behaviour before the repair: every activity in the session is re-stamped -/
def actFlushAll (v : VTable TKey) (T : Nat) (stored new : List Act) : List Act :=
  (stored ++ new).map (stamp v T)

/-- `is_session_modified`: only pending activities count -/
def actModified (new : List Act) : Bool := !new.isEmpty

/-- **C18** for one flush: `v` = version rows visible when the flush starts, `T` its transaction,
`before` / `after` the stored activities.  Stored activities are unchanged; every new one carries
`T` and points at the newest version of its object / target. -/
def C18.Holds (v : VTable TKey) (T : Nat) (before after : List Act) : Prop :=
  (∀ a ∈ before, a ∈ after) ∧
  (∀ a ∈ after, a ∉ before →
    a.tx = some T ∧ a.objTx = a.obj.bind (newestTx v) ∧ a.tgtTx = a.tgt.bind (newestTx v)) ∧
  (∀ a ∈ after, ∀ b ∈ before, a.id = b.id → a = b)

instance c18Dec (v : VTable TKey) (T : Nat) (before after : List Act) : Decidable (C18.Holds v T before after) := by
  unfold C18.Holds; infer_instance

end Continuum
