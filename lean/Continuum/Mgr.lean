import Continuum.Uow

/-!
# The versioning manager with several sessions and connections (C09)

`VersioningManager.units_of_work` (connection ↦ unit of work) and `session_connection_map`
(session ↦ connection), and how `unit_of_work`, `clear` and `clear_connection` maintain them.
Every connection has its own database view (`St.db`, `St.committed`) — isolation between
uncommitted transactions of different connections on one database is the DBMS's job (trusted
base); what is modelled and proved here is the manager's bookkeeping: which unit of work an event
is routed to and what is left behind.

The per-connection state is the `St` of `Uow.lean`; `St.uow = some _` means
`conn ∈ units_of_work`.  Core Lean only.
-/

namespace Continuum

structure Mgr where
  conns : List (Nat × St) := []     -- connection ↦ (database view, unit of work)
  scm : List (Nat × Nat) := []      -- session ↦ connection it registered
  closed : List Nat := []           -- connections whose `.closed` is true
deriving Repr

inductive MEv
  /-- a listener event of session `sess`, whose `session.connection()` is `conn` -/
  | ev (sess conn : Nat) (e : Ev)
  /-- the engine-level `rollback` event of a connection (`clear_connection`) -/
  | engineRollback (conn : Nat)
  /-- the connection is closed (returned to the pool) -/
  | close (conn : Nat)
deriving Repr

def Mgr.get (m : Mgr) (c : Nat) : St := ((m.conns.find? (fun p => p.1 = c)).map (·.2)).getD {}

def Mgr.set (m : Mgr) (c : Nat) (s : St) : Mgr :=
  { m with conns := if m.conns.any (fun p => p.1 = c)
                    then m.conns.map (fun p => if p.1 = c then (c, s) else p)
                    else m.conns ++ [(c, s)] }

/-- `unit_of_work(session)`: register the session unless the connection is already registered -/
def Mgr.register (m : Mgr) (sess conn : Nat) : Mgr :=
  if m.scm.any (fun p => p.2 = conn) then m else { m with scm := m.scm ++ [(sess, conn)] }

/-- drop the units of work of closed connections (the sweep at the end of `clear` /
`clear_connection`) -/
def Mgr.sweepClosed (m : Mgr) : Mgr :=
  { m with conns := m.conns.map (fun p => if m.closed.contains p.1 then (p.1, { p.2 with uow := none }) else p) }

/-- Events handled through `unit_of_work(session)` (which registers the session): the flush
listeners and `create_transaction`.  Mapper and association events look the unit of work up by
connection only; they occur inside a flush bracket whose `before_flush` already registered the
session (W1), so treating them as registering is equivalent on bracketed traces and keeps the
routing function total. -/
def Ev.needsUow : Ev → Bool
  | .commit => false
  | .rollback => false
  | .spBegin => false
  | .spCommit => false
  | .spRollback => false
  | _ => true

def mgrStep (cfg : Cfg) (m : Mgr) : MEv → Mgr
  | .ev sess conn e =>
    match e with
    | .commit | .rollback =>
      -- the DBMS ends the transaction on that connection in any case
      let s := m.get conn
      let dbEnded : St := step cfg s e
      -- `clear(session)`: returns early when the session never registered a connection
      match m.scm.find? (fun p => p.1 = sess) with
      | none => m.set conn { dbEnded with uow := s.uow }
      | some p =>
        let m1 := { m with scm := m.scm.filter (fun q => q.1 ≠ sess) }
        -- the unit of work of the REGISTERED connection is dropped
        let m2 := if p.2 = conn then m1.set conn dbEnded
                  else (m1.set conn { dbEnded with uow := s.uow }).set p.2 { (m1.get p.2) with uow := none }
        m2.sweepClosed
    | _ =>
      let m1 := if e.needsUow then m.register sess conn else m
      m1.set conn (step cfg (m1.get conn) e)
  | .engineRollback conn =>
    let s := m.get conn
    let m1 := m.set conn (step cfg s .rollback)
    ({ m1 with scm := m1.scm.filter (fun q => q.2 ≠ conn) }).sweepClosed
  | .close conn => { m with closed := if m.closed.contains conn then m.closed else m.closed ++ [conn] }

def mgrRun (cfg : Cfg) (m : Mgr) (evs : List MEv) : Mgr := evs.foldl (mgrStep cfg) m

/-- the events of one connection, as that connection's own trace -/
def projConn (c : Nat) : List MEv → List Ev
  | [] => []
  | .ev _ c' e :: rest => if c' = c then e :: projConn c rest else projConn c rest
  | .engineRollback c' :: rest => if c' = c then Ev.rollback :: projConn c rest else projConn c rest
  | .close _ :: rest => projConn c rest

/-- every session uses one connection of its own, and no connection is closed while in use -/
def OwnConn (evs : List MEv) : Prop :=
  (∀ a ∈ evs, ∀ b ∈ evs, match a, b with
      | .ev s c _, .ev s' c' _ => (s = s' ↔ c = c')
      | _, _ => True) ∧
  (∀ a ∈ evs, match a with
      | .close _ => False
      | _ => True)

/-- units of work still held -/
def Mgr.liveUows (m : Mgr) : List Nat := (m.conns.filter (fun p => p.2.uow.isSome)).map (·.1)

end Continuum
